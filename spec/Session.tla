------------------------------ MODULE Session ------------------------------
(* TCPCLv4 session life cycle as implemented by pkg/cla/tcpclv4/internal/stages:                   *)
(* StageHandler running ContactStage, SessInitStage, SessEstablishedStage one after the other.     *)
(* Growth beyond the listed properties (C11 covers the transfers that run inside an established    *)
(* session).                                                                                        *)
(*                                                                                                  *)
(* One endpoint is a record; React gives its reaction to one incoming message, LocalClose / LocalOut *)
(* its reaction to the two local stimuli. Two configurations use the same operators:                *)
(*   Mode = "env":  one endpoint against an environment that may send ANY message at any time       *)
(*                  (behaviours are replayed on a real StageHandler, harness/stages/session.go)     *)
(*   Mode = "pair": an active and a passive endpoint joined by two FIFO links (exhaustive TLC:      *)
(*                  agreement on the negotiated values, no spurious failure, handshake liveness,    *)
(*                  orderly termination)                                                            *)
(* Time (keep-alive, stalled sessions) is not in this module: SessionCheck.tla judges timestamps    *)
(* recorded from real sessions.                                                                     *)
EXTENDS Integers, Sequences, FiniteSets, TLC, Json

CONSTANTS Mode,        \* "env" | "pair"
          EnvActive,   \* env mode: is the endpoint under test the active one
          OwnKA,       \* keep-alive the endpoint(s) are configured with (pair: <<active's, passive's>>; env: <<own>>)
          PeerKAs,     \* env mode: keep-alive values the environment may announce
          MaxSteps, EmitMode

Kinds == {"CH", "SI", "KA", "TERM", "X"}     \* X = any transfer level message (XFER_SEGMENT, XFER_ACK, XFER_REFUSE, MSG_REJECT)
Msg(k) == [k |-> k, ka |-> 0, reply |-> FALSE]
SI(n) == [k |-> "SI", ka |-> n, reply |-> FALSE]
Term(r) == [k |-> "TERM", ka |-> 0, reply |-> r]
Min(a, b) == IF a < b THEN a ELSE b

(* endpoint: stage "contact" | "init" | "est" | "failed" | "closed"; err "" | "type" | "sessinit" | "close"          *)
(*           up = transfer level messages handed to the layer above (count)                                         *)
NewEp(active, own) == [active |-> active, own |-> own, stage |-> "contact", ka |-> -1, peerka |-> -1, err |-> "", up |-> 0]

(* what a freshly started endpoint emits before anything arrives *)
StartOuts(ep) == IF ep.active THEN <<Msg("CH")>> ELSE <<>>

(* reaction to an incoming message: <<endpoint', outputs>> *)
React(ep, m) ==
  CASE ep.stage = "contact" ->
         IF m.k # "CH" THEN <<[ep EXCEPT !.stage = "failed", !.err = "type"], <<>>>>
         ELSE \* contact header received; the passive side answers; then the init stage starts: the active side sends SESS_INIT first
              <<[ep EXCEPT !.stage = "init"], IF ep.active THEN <<SI(ep.own)>> ELSE <<Msg("CH")>>>>
    [] ep.stage = "init" ->
         IF m.k # "SI" THEN <<[ep EXCEPT !.stage = "failed", !.err = "type"], <<>>>>
         ELSE <<[ep EXCEPT !.stage = "est", !.ka = Min(ep.own, m.ka), !.peerka = m.ka], IF ep.active THEN <<>> ELSE <<SI(ep.own)>>>>
    [] ep.stage = "est" ->
         CASE m.k = "SI" -> <<[ep EXCEPT !.stage = "failed", !.err = "sessinit"], <<>>>>
           \* deliberate copy of the code: a SESS_TERM that is itself a reply is answered again (RFC 9174 says it need not be);
           \* harmless, because the answering side ends its session with that answer
           [] m.k = "TERM" -> <<[ep EXCEPT !.stage = "closed", !.err = "close"], <<Term(TRUE)>>>>
           [] m.k = "KA" -> <<ep, <<>>>>
           [] m.k = "CH" -> <<[ep EXCEPT !.up = @ + 1], <<>>>>      \* the code hands every other type upwards, a stray contact header too
           [] OTHER -> <<[ep EXCEPT !.up = @ + 1], <<>>>>
    [] OTHER -> <<ep, <<>>>>                                         \* failed / closed: nobody reads any more

LocalClose(ep) ==
  CASE ep.stage \in {"contact", "init"} -> <<[ep EXCEPT !.stage = "closed", !.err = "close"], <<>>>>
    [] ep.stage = "est" -> <<[ep EXCEPT !.stage = "closed", !.err = "close"], <<Term(FALSE)>>>>
    [] OTHER -> <<ep, <<>>>>
LocalOut(ep) == IF ep.stage = "est" THEN <<ep, <<Msg("X")>>>> ELSE <<ep, <<>>>>
Alive(ep) == ep.stage \in {"contact", "init", "est"}

-----------------------------------------------------------------------------
VARIABLES eps,     \* env: <<ep>>; pair: <<active, passive>>
          links,   \* pair: links[1] = active -> passive, links[2] = passive -> active (FIFO); env: unused
          steps, hist
vars == <<eps, links, steps, hist>>

Init ==
  /\ eps = IF Mode = "env" THEN <<NewEp(EnvActive, OwnKA[1])>> ELSE <<NewEp(TRUE, OwnKA[1]), NewEp(FALSE, OwnKA[2])>>
  /\ links = IF Mode = "env" THEN <<>> ELSE <<StartOuts(NewEp(TRUE, OwnKA[1])), <<>>>>
  /\ steps = 0 /\ hist = <<>>

Proj(ep) == [stage |-> ep.stage, ka |-> ep.ka, err |-> ep.err, up |-> ep.up]
Log(rec) ==
  /\ steps' = IF Mode = "env" THEN steps + 1 ELSE steps     \* the pair configuration is finite by itself (links are bounded)
  /\ hist' = IF EmitMode = "none" THEN hist ELSE Append(hist, rec)
  /\ (EmitMode = "edge") => PrintT(<<"TRACE", ToJson(hist')>>)

(* ---- env mode ---- *)
EnvMsgs == {Msg("CH"), Msg("KA"), Msg("X"), Term(FALSE), Term(TRUE)} \cup {SI(n) : n \in PeerKAs}
EnvSend(m) ==
  /\ Mode = "env" /\ steps < MaxSteps /\ Alive(eps[1])
  /\ LET r == React(eps[1], m) IN
     /\ eps' = <<r[1]>>
     /\ Log([act |-> "recv", msg |-> m, outs |-> r[2], exp |-> Proj(r[1])])
  /\ UNCHANGED links
EnvClose ==
  /\ Mode = "env" /\ steps < MaxSteps /\ Alive(eps[1])
  /\ LET r == LocalClose(eps[1]) IN
     /\ eps' = <<r[1]>>
     /\ Log([act |-> "close", msg |-> Msg("KA"), outs |-> r[2], exp |-> Proj(r[1])])
  /\ UNCHANGED links
EnvOut ==
  /\ Mode = "env" /\ steps < MaxSteps /\ eps[1].stage = "est"
  /\ LET r == LocalOut(eps[1]) IN
     /\ eps' = <<r[1]>>
     /\ Log([act |-> "out", msg |-> Msg("X"), outs |-> r[2], exp |-> Proj(r[1])])
  /\ UNCHANGED links

(* ---- pair mode ---- *)
Other(i) == 3 - i
Deliver(i) ==       \* head of the link towards endpoint i is delivered to it (links[Other(i)] carries messages sent by Other(i))
  /\ Mode = "pair" /\ steps < MaxSteps
  /\ links[Other(i)] # <<>>
  /\ LET m == Head(links[Other(i)])
         r == React(eps[i], m)
     IN /\ eps' = [eps EXCEPT ![i] = r[1]]
        /\ links' = [links EXCEPT ![Other(i)] = Tail(@), ![i] = @ \o r[2]]
        /\ Log([act |-> "deliver", to |-> i])
PairClose(i) ==
  /\ Mode = "pair" /\ steps < MaxSteps /\ Alive(eps[i])
  /\ LET r == LocalClose(eps[i]) IN
     /\ eps' = [eps EXCEPT ![i] = r[1]]
     /\ links' = [links EXCEPT ![i] = @ \o r[2]]
     /\ Log([act |-> "close", to |-> i])
PairOut(i) ==
  /\ Mode = "pair" /\ steps < MaxSteps /\ eps[i].stage = "est" /\ Len(links[i]) < 2
  /\ eps[Other(i)].up + Len(links[i]) < 3              \* bounds the counter of messages handed upwards
  /\ links' = [links EXCEPT ![i] = @ \o <<Msg("X")>>]
  /\ UNCHANGED eps
  /\ Log([act |-> "out", to |-> i])

(* the owner of an ended session (tcpclv4.Client.handle) closes the connection; once everything in flight was read, the peer's
   MessageSwitch reports EOF and its client ends its own session *)
Eof(i) ==
  /\ Mode = "pair" /\ Alive(eps[i]) /\ ~Alive(eps[Other(i)]) /\ links[Other(i)] = <<>>
  /\ eps' = [eps EXCEPT ![i].stage = "failed", ![i].err = "eof"]
  /\ UNCHANGED links
  /\ Log([act |-> "eof", to |-> i])

Next ==
  \/ \E i \in 1..2 : Eof(i)
  \/ \E m \in EnvMsgs : EnvSend(m)
  \/ EnvClose \/ EnvOut
  \/ \E i \in 1..2 : Deliver(i) \/ PairClose(i) \/ PairOut(i)

Spec == Init /\ [][Next]_vars
(* handshake progress needs the deliveries only *)
FairSpec == Spec /\ WF_vars(Deliver(1)) /\ WF_vars(Deliver(2)) /\ WF_vars(Eof(1)) /\ WF_vars(Eof(2))
NoCloseNext == \E i \in 1..2 : Deliver(i) \/ PairOut(i)
NoCloseSpec == Init /\ [][NoCloseNext]_vars /\ WF_vars(Deliver(1)) /\ WF_vars(Deliver(2))

-----------------------------------------------------------------------------
(* ---- properties ---- *)
TypeOK == \A i \in 1..Len(eps) : eps[i].stage \in {"contact", "init", "est", "failed", "closed"}
(* both sides of an established session agree on the keep-alive, and it is the smaller of the two configured values *)
Agreement == Mode = "pair" =>
  \A i \in 1..2 : eps[i].stage = "est" => /\ eps[i].ka = Min(OwnKA[1], OwnKA[2])
                                           /\ eps[i].peerka = OwnKA[Other(i)]
(* nobody fails unless somebody closed: two correct endpoints never see an unexpected message *)
NoSpuriousFailure == Mode = "pair" => \A i \in 1..2 : eps[i].err \in {"", "close", "eof"} /\ (eps[i].err = "eof" => eps[Other(i)].err = "close")
(* the passive side never speaks first, and SESS_INIT is never sent before the contact headers were exchanged (checked on the
   links: a SESS_INIT in flight implies its sender has left the contact stage) *)
Order == Mode = "pair" =>
  \A i \in 1..2 : \A j \in 1..Len(links[i]) : links[i][j].k = "SI" => eps[i].stage # "contact"
(* a message handed upwards only in an established session *)
UpOnlyEstablished == \A i \in 1..Len(eps) : eps[i].up > 0 => eps[i].stage \in {"est", "failed", "closed"}
(* without a close both sides get established *)
Establishes == <>(eps[1].stage = "est" /\ eps[2].stage = "est")
(* after a close of an established session both sides end up closed *)
BothEnd == [](\A i \in 1..2 : (eps[i].stage = "closed" /\ eps[Other(i)].stage = "est") => <>(eps[Other(i)].stage \in {"closed", "failed"}))

SView == <<eps, links, steps>>
Emit == (EmitMode = "final" /\ steps = MaxSteps) => PrintT(<<"TRACE", ToJson(hist)>>)
=============================================================================
