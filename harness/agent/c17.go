package agent

// C17 (WebSocket agent messages)

import (
	"bytes"
	"encoding/json"
	"fmt"
	"io"
	"os"
	"reflect"
	"strings"
	"testing"
)

type vbCase struct {
	K     string `json:"k"`
	Code  int    `json:"code"`
	SLen  int    `json:"slen"`
	RLen  int    `json:"rlen"`
	Valid bool   `json:"valid"`
	Bytes []int  `json:"bytes"`
	Tail  int    `json:"tail"`
	After []int  `json:"after"`
	ATail int    `json:"aftertail"`
}

func TestVerifC17Wam(t *testing.T) {
	n, ninv := 0, 0
	var good [][]byte
	var goodM []webAgentMessage
	if err := vhLines(os.Getenv("VERIF_IN"), func(raw []byte) {
		var c vbCase
		if err := json.Unmarshal(raw, &c); err != nil {
			t.Fatal(err)
		}
		viol := func(key, desc string) { vhViol("aux/wam/"+c.K+"/"+key, desc, vhRec{"case": json.RawMessage(raw)}) }
		defer func() {
			if p := recover(); p != nil {
				viol("panic", fmt.Sprint(p))
			}
		}()
		var spec []byte
		for _, x := range c.Bytes {
			spec = append(spec, byte(x))
		}
		spec = append(spec, bytes.Repeat([]byte{'a'}, c.Tail)...)
		for _, x := range c.After {
			spec = append(spec, byte(x))
		}
		spec = append(spec, bytes.Repeat([]byte{'a'}, c.ATail)...)
		str := strings.Repeat("a", c.SLen)
		var m webAgentMessage
		switch c.K {
		case "status":
			m = &wamStatus{str}
		case "register":
			m = newRegisterMessage(str)
		case "syscall_request":
			m = newSyscallRequestMessage(str)
		case "syscall_response":
			m = newSyscallResponseMessage(str, bytes.Repeat([]byte{'a'}, c.RLen))
		case "unknown":
			ninv++
			if _, err := unmarshalCbor(bytes.NewReader(spec)); err == nil {
				viol("invalid-accepted", fmt.Sprintf("message with unknown type code %d decoded without error", c.Code))
			}
			return
		}
		var buf bytes.Buffer
		if err := marshalCbor(m, &buf); err != nil {
			viol("marshal-error", err.Error())
			return
		}
		real := buf.Bytes()
		if !bytes.Equal(real, spec) {
			vhNote(fmt.Sprintf("format drift (diagnostic): %s %x vs spec %x", c.K, real[:min(len(real), 40)], spec[:min(len(spec), 40)]))
		}
		for _, in := range [][]byte{real, spec} {
			r := bytes.NewReader(append(append([]byte{}, in...), 0xa5, 0x5a))
			got, err := unmarshalCbor(r)
			if err != nil {
				viol("decode-error", err.Error())
				return
			}
			same := reflect.DeepEqual(got, m)
			if x, ok := m.(*wamSyscallResponse); ok && !same {
				y, ok2 := got.(*wamSyscallResponse)
				same = ok2 && x.request == y.request && bytes.Equal(x.response, y.response)
			}
			if !same {
				viol("round-trip", fmt.Sprintf("decoded %v, encoded %v", got, m))
				return
			}
			if rest, _ := io.ReadAll(r); !bytes.Equal(rest, []byte{0xa5, 0x5a}) {
				viol("alignment", "decoder did not consume exactly the encoding")
				return
			}
		}
		n++
		if len(real) < 400 {
			good = append(good, real)
			goodM = append(goodM, m)
		}
	}); err != nil {
		t.Fatal(err)
	}
	// consecutive messages on one stream
	for i := 0; i+2 < len(good); i++ {
		stream := append(append(append([]byte{}, good[i]...), good[i+1]...), good[i+2]...)
		r := bytes.NewReader(stream)
		for j := 0; j < 3; j++ {
			got, err := unmarshalCbor(r)
			if err != nil || got.typeCode() != goodM[i+j].typeCode() {
				vhViol("aux/wam/stream/misaligned", fmt.Sprintf("message %d on one stream: %v (%v)", j, got, err), vhRec{"stream": fmt.Sprintf("%x", stream)})
				break
			}
		}
	}
	vhStat("values_valid", n)
	vhStat("values_invalid", ninv)
	vhDone()
}

func min(a, b int) int {
	if a < b {
		return a
	}
	return b
}
