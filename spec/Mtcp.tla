------------------------------- MODULE Mtcp -------------------------------
(* Minimal TCP convergence layer (property C12, first half).                                    *)
(* The connection is a byte stream of frames: a CBOR byte-string head with the length, then the *)
(* bundle; length zero is a keep-alive. The writer may be cut at a frame boundary, inside a      *)
(* frame head or inside a frame body. The server hands up the bundles whose frames arrived       *)
(* completely, in order, keep-alives invisible.                                                  *)
EXTENDS Integers, Sequences, FiniteSets, TLC, Json

CONSTANTS NB,        \* bundles 1..NB, sent in this order (each at most once)
          MaxOps,    \* writer operations
          EmitMode

VARIABLES stream,    \* frames written so far: "ka" or a bundle number; the last one may be cut: [f, cut: "no"|"head"|"body"]
          closed,    \* writer finished (closed or cut)
          next,      \* next bundle to send
          rd,        \* number of frames the server consumed
          delivered, \* bundles handed up
          srvDone,   \* server left its read loop
          hist
vars == <<stream, closed, next, rd, delivered, srvDone, hist>>

Init == stream = <<>> /\ closed = FALSE /\ next = 1 /\ rd = 0 /\ delivered = <<>> /\ srvDone = FALSE /\ hist = <<>>

Log(op) == hist' = IF EmitMode = "none" THEN hist ELSE Append(hist, op)

WriteKA == /\ ~closed /\ Len(stream) < MaxOps
           /\ stream' = Append(stream, [f |-> "ka", b |-> 0, cut |-> "no"])
           /\ Log([op |-> "ka"]) /\ UNCHANGED <<closed, next, rd, delivered, srvDone>>
WriteBundle == /\ ~closed /\ Len(stream) < MaxOps /\ next <= NB
               /\ stream' = Append(stream, [f |-> "bundle", b |-> next, cut |-> "no"])
               /\ next' = next + 1
               /\ Log([op |-> "bundle", b |-> next]) /\ UNCHANGED <<closed, rd, delivered, srvDone>>
(* the connection breaks while the next bundle frame is being written *)
CutIn(where) == /\ ~closed /\ Len(stream) < MaxOps /\ next <= NB
                /\ stream' = Append(stream, [f |-> "bundle", b |-> next, cut |-> where])
                /\ closed' = TRUE
                /\ Log([op |-> "cut", b |-> next, where |-> where]) /\ UNCHANGED <<next, rd, delivered, srvDone>>
Close == /\ ~closed /\ closed' = TRUE /\ Log([op |-> "close"]) /\ UNCHANGED <<stream, next, rd, delivered, srvDone>>

ServerRead ==
  /\ ~srvDone
  /\ IF rd < Len(stream)
     THEN LET fr == stream[rd + 1] IN
          IF fr.cut # "no" THEN srvDone' = TRUE /\ UNCHANGED <<rd, delivered>>          \* incomplete frame: give up
          ELSE /\ rd' = rd + 1
               /\ delivered' = IF fr.f = "bundle" THEN Append(delivered, fr.b) ELSE delivered
               /\ UNCHANGED srvDone
     ELSE closed /\ srvDone' = TRUE /\ UNCHANGED <<rd, delivered>>                      \* EOF
  /\ UNCHANGED <<stream, closed, next, hist>>

Next == WriteKA \/ WriteBundle \/ CutIn("head") \/ CutIn("body") \/ Close \/ ServerRead
Spec == Init /\ [][Next]_vars /\ WF_vars(ServerRead)

Complete == SelectSeq(stream, LAMBDA fr : fr.f = "bundle" /\ fr.cut = "no")
Sent == [i \in 1..Len(Complete) |-> Complete[i].b]
\* what is handed up is always a prefix of what was completely written, in order, each once
PrefixInOrder == Len(delivered) <= Len(Sent) /\ delivered = SubSeq(Sent, 1, Len(delivered))
AllArrive == srvDone => delivered = Sent
Eventually == <>(closed => srvDone)
Emit == (EmitMode = "final" /\ srvDone) => PrintT(<<"TRACE", ToJson([ops |-> hist, exp |-> delivered])>>)
View == <<stream, closed, next, rd, delivered, srvDone>>

(* client side: a Send on a connection that fails at write number k *)
(* rec: [fail_at: -1 = never, sends: Seq([ok, gone_reports])]  judged here *)
ClientProblems(r) ==
  {p \in {"success-on-broken-connection", "peer-not-reported-gone", "error-on-good-connection", "gone-reported-on-good-connection"} :
     CASE p = "success-on-broken-connection" -> \E i \in 1..Len(r.sends) : r.sends[i].broken /\ r.sends[i].ok
       [] p = "peer-not-reported-gone" -> \E i \in 1..Len(r.sends) : r.sends[i].broken /\ r.sends[i].gone = 0
       [] p = "error-on-good-connection" -> \E i \in 1..Len(r.sends) : ~r.sends[i].broken /\ ~r.sends[i].ok
       [] p = "gone-reported-on-good-connection" -> \E i \in 1..Len(r.sends) : ~r.sends[i].broken /\ r.sends[i].gone > 0}
=============================================================================
