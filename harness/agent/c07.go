package agent

// C07: replay of Agents.tla behaviours on a real MuxAgent with a real RestAgent (HTTP), a real WebSocketAgent with
// connector clients, the ping agent and a plain agent; forced interleavings of deliver and fetch on one mailbox.

import (
	"bytes"
	"encoding/json"
	"fmt"
	"io"
	"net/http"
	"net/http/httptest"
	"os"
	"strings"
	"sync"
	"testing"
	"time"

	log "github.com/sirupsen/logrus"

	"github.com/gorilla/mux"

	"github.com/dtn7/dtn7-go/pkg/bpv7"
)

type vaBarrier struct{ n int }

func (vaBarrier) Recipients() []bpv7.EndpointID { return nil } // goes to every child of a mux

type vaPlain struct {
	eid  bpv7.EndpointID
	recv chan Message
	send chan Message
	mu   sync.Mutex
	got  []int
	bar  chan int
}

func (a *vaPlain) Endpoints() []bpv7.EndpointID { return []bpv7.EndpointID{a.eid} }
func (a *vaPlain) MessageReceiver() chan Message { return a.recv }
func (a *vaPlain) MessageSender() chan Message   { return a.send }
func (a *vaPlain) loop() {
	for m := range a.recv {
		switch m := m.(type) {
		case BundleMessage:
			a.mu.Lock()
			a.got = append(a.got, vaNum(m.Bundle))
			a.mu.Unlock()
		case vaBarrier:
			a.bar <- m.n
		}
	}
}

func vaEp(e string) string { return "dtn://node/" + e }

func vaBundle(n int, dst string) bpv7.Bundle {
	b, err := bpv7.Builder().BundleCtrlFlags(0).Source("dtn://elsewhere/src").Destination(dst).ReportTo("dtn://elsewhere/rpt").CreationTimestampNow().
		Lifetime("1h").PayloadBlock([]byte(fmt.Sprintf("n%d", n))).Build()
	if err != nil {
		panic(err)
	}
	return b
}

func vaNum(b bpv7.Bundle) int {
	pb, err := b.PayloadBlock()
	if err != nil {
		return -1
	}
	n := -1
	fmt.Sscanf(string(pb.Value.(*PayloadBlockAlias).Data()), "n%d", &n)
	return n
}

type PayloadBlockAlias = bpv7.PayloadBlock

// vaFetchResponse: the JSON a REST client gets (bundles in their JSON form: payload as base64 data of block type 1)
type vaFetchResponse struct {
	Error   string `json:"error"`
	Bundles []struct {
		CanonicalBlocks []struct {
			BlockTypeCode int    `json:"blockTypeCode"`
			Data          []byte `json:"data"`
		} `json:"canonicalBlocks"`
	} `json:"bundles"`
}

func (r vaFetchResponse) nums() (out []int) {
	for _, b := range r.Bundles {
		n := -1
		for _, cb := range b.CanonicalBlocks {
			if cb.BlockTypeCode == 1 {
				fmt.Sscanf(string(cb.Data), "n%d", &n)
			}
		}
		out = append(out, n)
	}
	return
}

type vaWs struct {
	conn *WebSocketAgentConnector
	mu   sync.Mutex
	got  []int
}

type vaWorld struct {
	mux    *MuxAgent
	rest   *RestAgent
	wsa    *WebSocketAgent
	ping   *PingAgent
	plain  *vaPlain
	srv    *httptest.Server
	uuids  map[string]string
	wsc    map[string]*vaWs
	pongs  int
	pmu    sync.Mutex
	barN   int
	closed chan struct{}
}

func vaNewWorld() *vaWorld {
	w := &vaWorld{uuids: map[string]string{}, wsc: map[string]*vaWs{}, closed: make(chan struct{})}
	r := mux.NewRouter()
	w.rest = NewRestAgent(r.PathPrefix("/rest").Subrouter())
	w.wsa = NewWebSocketAgent()
	r.HandleFunc("/ws", w.wsa.ServeHTTP)
	w.srv = httptest.NewServer(r)
	w.ping = NewPing(bpv7.MustNewEndpointID(vaEp("ping")))
	w.plain = &vaPlain{eid: bpv7.MustNewEndpointID(vaEp("e2")), recv: make(chan Message), send: make(chan Message), bar: make(chan int, 64)}
	go w.plain.loop()
	w.mux = NewMuxAgent()
	w.mux.Register(w.rest)
	w.mux.Register(w.wsa)
	w.mux.Register(w.ping)
	w.mux.Register(w.plain) // last: barriers reach it after all other children took them
	go func() {
		for m := range w.mux.MessageSender() { // what the agents send towards the node: pongs
			if bm, ok := m.(BundleMessage); ok {
				if pb, err := bm.Bundle.PayloadBlock(); err == nil && string(pb.Value.(*bpv7.PayloadBlock).Data()) == "pong" {
					w.pmu.Lock()
					w.pongs++
					w.pmu.Unlock()
				}
			}
		}
	}()
	return w
}

func (w *vaWorld) close() {
	for _, c := range w.wsc {
		c.conn.Close()
	}
	select {
	case w.mux.MessageReceiver() <- ShutdownMessage{}:
	case <-time.After(2 * time.Second):
	}
	w.srv.Close()
}

func (w *vaWorld) post(path string, req, resp interface{}) error {
	b, _ := json.Marshal(req)
	r, err := http.Post(w.srv.URL+"/rest/"+path, "application/json", bytes.NewReader(b))
	if err != nil {
		return err
	}
	defer r.Body.Close()
	return json.NewDecoder(r.Body).Decode(resp)
}

// barrier: k rounds of a message that every agent (and every WebSocket client behind the inner mux) must take.
func (w *vaWorld) barrier() error {
	for k := 0; k < 4; k++ {
		w.barN++
		select {
		case w.mux.MessageReceiver() <- vaBarrier{w.barN}:
		case <-time.After(10 * time.Second):
			return fmt.Errorf("deadlock: the mux does not take messages any more")
		}
		to := time.After(10 * time.Second)
		for got := false; !got; {
			select {
			case n := <-w.plain.bar:
				got = n == w.barN
			case <-to:
				return fmt.Errorf("deadlock: a message is stuck in the mux (an agent does not take it)")
			}
		}
	}
	return nil
}

type vaExp struct {
	Box      map[string][]int `json:"box"`
	Got      map[string][]int `json:"got"`
	Plain    []int            `json:"plain"`
	Pongs    int              `json:"pongs"`
	Fetched  []int            `json:"fetched"`
	Accepted bool             `json:"accepted"`
}

type vaStep struct {
	Act string `json:"act"`
	C   string `json:"c"`
	E   string `json:"e"`
	N   int    `json:"n"`
	Exp vaExp  `json:"exp"`
}

func vaReplay(hist []vaStep) string {
	w := vaNewWorld()
	defer w.close()
	fetchedSoFar := map[string][]int{}
	for n, s := range hist {
		viol := func(key, desc string) string {
			vhViol("agents/"+s.Act+"/"+key, fmt.Sprintf("step %d (%s %s %s): %s", n, s.Act, s.C, s.E, desc), vhRec{"history": hist[:n+1]})
			return "viol"
		}
		var fetched []int
		accepted := true
		switch s.Act {
		case "RestRegister":
			var resp RestRegisterResponse
			if err := w.post("register", RestRegisterRequest{EndpointId: vaEp(s.E)}, &resp); err != nil || resp.Error != "" {
				return viol("error", fmt.Sprintf("registration failed: %v %s", err, resp.Error))
			}
			w.uuids[s.C] = resp.UUID
		case "RestUnregister":
			var resp RestUnregisterResponse
			if err := w.post("unregister", RestUnregisterRequest{UUID: w.uuids[s.C]}, &resp); err != nil {
				return viol("error", err.Error())
			}
			delete(w.uuids, s.C)
		case "RestFetch":
			var resp vaFetchResponse
			if err := w.post("fetch", RestFetchRequest{UUID: w.uuids[s.C]}, &resp); err != nil || resp.Error != "" {
				return viol("error", fmt.Sprintf("fetch failed: %v %s", err, resp.Error))
			}
			fetched = resp.nums()
			fetchedSoFar[s.C] = append(fetchedSoFar[s.C], fetched...)
		case "WsConnect":
			conn, err := NewWebSocketAgentConnector("ws"+strings.TrimPrefix(w.srv.URL, "http")+"/ws", vaEp(s.E))
			if err != nil {
				return viol("error", "WebSocket client cannot connect/register: "+err.Error())
			}
			c := &vaWs{conn: conn}
			w.wsc[s.C] = c
			go func() {
				for {
					b, err := conn.ReadBundle()
					if err != nil {
						return
					}
					c.mu.Lock()
					c.got = append(c.got, vaNum(b))
					c.mu.Unlock()
				}
			}()
		case "WsClose":
			c := w.wsc[s.C]
			c.conn.Close()
			delete(w.wsc, s.C)
			// the server side notices the closed connection on its own goroutine
			gone := false
			for i := 0; i < 5000 && !gone; i++ {
				gone = true
				regd := 0
				for _, other := range w.wsc {
					_ = other
					regd++
				}
				if len(w.wsa.Endpoints()) > regd {
					gone = false
					time.Sleep(time.Millisecond)
				}
			}
			if !gone {
				return viol("still-registered", "closed WebSocket client is still registered after 5 s")
			}
		case "Deliver":
			b := vaBundle(s.N, vaEp(s.E))
			// what routing.AgentManager.Deliver does: refuse if no agent has the endpoint, else hand the bundle to the mux
			accepted = AppAgentHasEndpoint(w.mux, b.PrimaryBlock.Destination)
			if accepted {
				select {
				case w.mux.MessageReceiver() <- BundleMessage{Bundle: b}:
				case <-time.After(10 * time.Second):
					return viol("deadlock", "the mux does not take the bundle")
				}
			}
		}
		if err := w.barrier(); err != nil {
			return viol("deadlock", err.Error())
		}
		// expected arrivals at WebSocket clients may still be on the socket: wait for them
		for c, want := range s.Exp.Got {
			cl := w.wsc[c]
			if cl == nil {
				continue
			}
			for i := 0; i < 3000; i++ {
				cl.mu.Lock()
				l := len(cl.got)
				cl.mu.Unlock()
				if l >= len(want) {
					break
				}
				time.Sleep(time.Millisecond)
			}
		}
		if s.Act == "Deliver" && s.Exp.Pongs > 0 {
			for i := 0; i < 3000; i++ {
				w.pmu.Lock()
				p := w.pongs
				w.pmu.Unlock()
				if p >= s.Exp.Pongs {
					break
				}
				time.Sleep(time.Millisecond)
			}
		}
		// --- compare
		if accepted != s.Exp.Accepted {
			return viol("accepted", fmt.Sprintf("a bundle for %s: an agent has the endpoint = %v, expected %v", s.E, accepted, s.Exp.Accepted))
		}
		if fmt.Sprint(fetched) != fmt.Sprint(s.Exp.Fetched) && !(len(fetched) == 0 && len(s.Exp.Fetched) == 0) {
			return viol("fetched", fmt.Sprintf("client %s fetched %v, expected %v", s.C, fetched, s.Exp.Fetched))
		}
		for c, want := range s.Exp.Got {
			cl := w.wsc[c]
			var have []int
			if cl != nil {
				cl.mu.Lock()
				have = append([]int{}, cl.got...)
				cl.mu.Unlock()
			}
			if fmt.Sprint(have) != fmt.Sprint(want) && !(len(have) == 0 && len(want) == 0) {
				return viol("websocket", fmt.Sprintf("WebSocket client %s received %v, expected %v", c, have, want))
			}
		}
		w.plain.mu.Lock()
		pl := append([]int{}, w.plain.got...)
		w.plain.mu.Unlock()
		if fmt.Sprint(pl) != fmt.Sprint(s.Exp.Plain) && !(len(pl) == 0 && len(s.Exp.Plain) == 0) {
			return viol("plain-agent", fmt.Sprintf("plain agent received %v, expected %v", pl, s.Exp.Plain))
		}
		w.pmu.Lock()
		pg := w.pongs
		w.pmu.Unlock()
		if pg != s.Exp.Pongs {
			return viol("pongs", fmt.Sprintf("%d pongs, expected %d", pg, s.Exp.Pongs))
		}
		// mailboxes are observed without emptying them (in-package)
		for c, want := range s.Exp.Box {
			var have []int
			if u, ok := w.uuids[c]; ok {
				if v, ok := w.rest.mailbox.Load(u); ok {
					for _, b := range v.([]bpv7.Bundle) {
						have = append(have, vaNum(b))
					}
				}
			}
			if fmt.Sprint(have) != fmt.Sprint(want) && !(len(have) == 0 && len(want) == 0) {
				return viol("mailbox", fmt.Sprintf("mailbox of %s holds %v, expected %v", c, have, want))
			}
		}
	}
	return "ok"
}

func TestVerifC07Replay(t *testing.T) {
	log.SetOutput(io.Discard)
	var items [][]byte
	if err := vhLines(os.Getenv("VERIF_IN"), func(b []byte) { items = append(items, b) }); err != nil {
		t.Fatal(err)
	}
	only := vhEnvInt("VERIF_ONLY", -1)
	skip := vhSkipSet()
	var mu sync.Mutex
	st := map[string]int{}
	vhParallel(vhEnvInt("VERIF_PAR", 8), items, func(idx int, item []byte) {
		if (only >= 0 && idx != only) || skip[idx] {
			return
		}
		var hist []vaStep
		if err := json.Unmarshal(item, &hist); err != nil {
			vhEmit(vhRec{"k": "infra", "v": err.Error()})
			return
		}
		vhBegin(idx, only, item)
		status := vaReplay(hist)
		vhEnd(idx)
		mu.Lock()
		st["histories_"+status]++
		for _, s := range hist {
			st["act_"+s.Act]++
		}
		if idx%3000 == 9 {
			vhSample(vhRec{"history": json.RawMessage(item)})
		}
		mu.Unlock()
	})
	for k, n := range st {
		vhStat(k, n)
	}
	vhStat("histories", len(items))
	vhDone()
}

// ---- forced interleavings of one delivery and one fetch on the same mailbox --------------------------------

func TestVerifC07Race(t *testing.T) {
	log.SetOutput(io.Discard)
	f, err := os.Create(os.Getenv("VERIF_REC"))
	if err != nil {
		t.Fatal(err)
	}
	defer f.Close()
	nrec, reached := 0, 0
	type gate struct {
		hit     chan struct{}
		release chan struct{}
	}
	var cur struct {
		mu    sync.Mutex
		point string
		g     *gate
	}
	VerifPointHook = func(point, key string) {
		cur.mu.Lock()
		g, want := cur.g, cur.point
		cur.mu.Unlock()
		if g == nil || point != want {
			return
		}
		select {
		case g.hit <- struct{}{}:
			<-g.release
		default:
		}
	}
	defer func() { VerifPointHook = nil }()
	for _, before := range []int{1, 2} {
		for _, order := range []string{"fetch:loaded", "deliver:loaded"} {
			w := vaNewWorld()
			var resp RestRegisterResponse
			if err := w.post("register", RestRegisterRequest{EndpointId: vaEp("e1")}, &resp); err != nil {
				t.Fatal(err)
			}
			uuid := resp.UUID
			var beforeL []int
			for n := 1; n <= before; n++ {
				w.mux.MessageReceiver() <- BundleMessage{Bundle: vaBundle(n, vaEp("e1"))}
				beforeL = append(beforeL, n)
			}
			_ = w.barrier()
			g := &gate{hit: make(chan struct{}), release: make(chan struct{})}
			cur.mu.Lock()
			cur.point, cur.g = order, g
			cur.mu.Unlock()
			newN := before + 1
			var f1 []int
			done := make(chan struct{})
			fetch := func(out *[]int) {
				var r vaFetchResponse
				_ = w.post("fetch", RestFetchRequest{UUID: uuid}, &r)
				*out = append(*out, r.nums()...)
			}
			deliver := func() {
				w.mux.MessageReceiver() <- BundleMessage{Bundle: vaBundle(newN, vaEp("e1"))}
				_ = w.barrier()
			}
			// the first party runs until it has read the mailbox, then the second one runs to completion, then the first resumes
			first, second := func() { fetch(&f1) }, deliver
			if order == "deliver:loaded" {
				first, second = deliver, func() { fetch(&f1) }
			}
			go func() { first(); close(done) }()
			gotHit := false
			select {
			case <-g.hit:
				gotHit = true
				reached++
			case <-time.After(3 * time.Second):
			}
			if gotHit {
				sdone := make(chan struct{})
				go func() { second(); close(sdone) }()
				select {
				case <-sdone:
				case <-time.After(500 * time.Millisecond): // the second party waits for the first (mailbox operations are serialised): let the first go on
				}
				close(g.release)
				<-sdone
			} else {
				second()
			}
			<-done
			cur.mu.Lock()
			cur.g = nil
			cur.mu.Unlock()
			var f2 []int
			fetch(&f2)
			if f1 == nil {
				f1 = []int{}
			}
			if f2 == nil {
				f2 = []int{}
			}
			b, _ := json.Marshal(vhRec{"t": "race", "order": order, "before": beforeL, "delivered": newN, "fetched1": f1, "fetched2": f2})
			f.Write(append(b, '\n'))
			nrec++
			w.close()
		}
	}
	if reached == 0 {
		vhEmit(vhRec{"k": "infra", "v": "no yield point of the REST agent was reached (hooks removed?)"})
	}
	vhStat("records", nrec)
	vhStat("yield_points_reached", reached)
	vhDone()
}
