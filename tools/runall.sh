#!/bin/sh
# usage: tools/runall.sh [tier] [seed]  -- runs every registered check once, prints one line per check
TIER=${1:-quick}
SEED=${2:-1}
cd "$(dirname "$0")/.."
for id in C01 C02 C03 C04 C05 C06 C07 C08 C09 C10 C11 C12 C13 C14 C15 C16 C17 C18 C19 C20; do
  start=$(date +%s)
  VERIF_SEED=$SEED bin/check $id $TIER > /tmp/runall-$TIER-$SEED-$id.log 2>&1
  rc=$?
  end=$(date +%s)
  echo "$id rc=$rc $((end-start))s $(grep -c '^VIOLATION' /tmp/runall-$TIER-$SEED-$id.log) violations $(grep -c '^KNOWN-FINDING' /tmp/runall-$TIER-$SEED-$id.log) known :: $(tail -1 /tmp/runall-$TIER-$SEED-$id.log | cut -c1-160)"
done
