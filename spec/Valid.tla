------------------------------ MODULE Valid ------------------------------
(* Abstract BPv7 bundles: (1) the structural rules of property C02 as one operator per rule  *)
(* over the *projection* of a parsed bundle, (2) generator families of abstract bundles and   *)
(* of rule-violating mutants, encoded to bytes with Wire.tla (C01 C02 C03).                   *)
EXTENDS Wire, Json

CONSTANTS Family,   \* which generator family Init enumerates
          NowU      \* current DTN time (ms since 2000) as U, supplied by the orchestrator

-----------------------------------------------------------------------------
(* Part 1: rules over a projection (what the harness read back from the parsed struct).                *)
(* proj: [ver, flags, pcrc, frag, src, dst, rpt: eidp, tszero, age_ms_since_ts, life, blocks: Seq(bp)] *)
(* eidp: [scheme, none, text: codes of the URI, node, svc]   (node/svc capped at 2^31-1)               *)
(* bp:   [type, num, flags, crc, limit, count, age, eid: eidp or "-" ]                                  *)

Bit(flags, b) == (flags \div b) % 2 = 1
FFrag == 1   FAdmin == 2   FMnf == 4   FRcpt == 16384   FFwd == 65536   FDlv == 131072   FDel == 262144
ReportFlags(f) == Bit(f, FRcpt) \/ Bit(f, FFwd) \/ Bit(f, FDlv) \/ Bit(f, FDel)
BReport == 2

WordChar(c) == (c >= 48 /\ c <= 57) \/ (c >= 65 /\ c <= 90) \/ (c >= 97 /\ c <= 122) \/ c = 95
NodeChar(c) == WordChar(c) \/ c = 45 \/ c = 46
DtnPrefix == <<100, 116, 110, 58>>                   \* "dtn:"
DtnNoneText == DtnPrefix \o <<110, 111, 110, 101>>   \* "dtn:none"

\* index of the first "/" at or after position p, 0 if none
RECURSIVE FirstSlash(_, _)
FirstSlash(t, p) == IF p > Len(t) THEN 0 ELSE IF t[p] = 47 THEN p ELSE FirstSlash(t, p + 1)

DtnTextOK(t) ==
  \/ t = DtnNoneText
  \/ /\ Len(t) >= 8
     /\ SubSeq(t, 1, 6) = DtnPrefix \o <<47, 47>>
     /\ LET s == FirstSlash(t, 7)
        IN /\ s > 7
           /\ \A i \in 7..(s - 1) : NodeChar(t[i])
           /\ \A i \in (s + 1)..Len(t) : t[i] # 10

EidOK(e) ==
  CASE e.scheme = 1 -> DtnTextOK(e.text)
    [] e.scheme = 2 -> e.node >= 1 /\ e.svc >= 1
    [] OTHER -> FALSE

IsNone(e) == e.scheme = 1 /\ e.none

PayloadIdx(p) == {i \in 1..Len(p.blocks) : p.blocks[i].type = 1}

RuleVersion(p) == p.ver = 7
RulePayload(p) == /\ Cardinality(PayloadIdx(p)) = 1
                  /\ p.blocks[Len(p.blocks)].type = 1
                  /\ p.blocks[Len(p.blocks)].num = 1
RuleNumbers(p) == \A i, j \in 1..Len(p.blocks) : i # j => p.blocks[i].num # p.blocks[j].num
RuleTypes(p) == \A i, j \in 1..Len(p.blocks) : i # j => p.blocks[i].type # p.blocks[j].type
RuleEids(p) == /\ EidOK(p.src) /\ EidOK(p.dst) /\ EidOK(p.rpt)
               /\ \A i \in 1..Len(p.blocks) : p.blocks[i].type = 6 => EidOK(p.blocks[i].eid)
RuleFragFlags(p) == ~(Bit(p.flags, FFrag) /\ Bit(p.flags, FMnf))
RuleAdmin(p) == Bit(p.flags, FAdmin) =>
                  /\ ~ReportFlags(p.flags)
                  /\ \A i \in 1..Len(p.blocks) : ~Bit(p.blocks[i].flags, BReport)
RuleAnon(p) == IsNone(p.src) =>
                  /\ ~ReportFlags(p.flags)
                  /\ Bit(p.flags, FMnf)
                  /\ \A i \in 1..Len(p.blocks) : ~Bit(p.blocks[i].flags, BReport)
AgeIdx(p) == {i \in 1..Len(p.blocks) : p.blocks[i].type = 7}
RuleZeroTime(p) == p.tszero => AgeIdx(p) # {}
RuleHop(p) == \A i \in 1..Len(p.blocks) : p.blocks[i].type = 10 => p.blocks[i].count <= p.blocks[i].limit
RuleLifetime(p) ==
  IF p.tszero
  THEN \A i \in AgeIdx(p) : p.blocks[i].age <= p.life
  ELSE p.since_ts <= p.life

Rules == <<"version", "payload", "numbers", "types", "eids", "fragflags", "admin", "anon", "zerotime", "hop", "lifetime">>
RuleHolds(r, p) ==
  CASE r = "version" -> RuleVersion(p) [] r = "payload" -> Len(p.blocks) > 0 /\ RulePayload(p)
    [] r = "numbers" -> RuleNumbers(p) [] r = "types" -> RuleTypes(p) [] r = "eids" -> RuleEids(p)
    [] r = "fragflags" -> RuleFragFlags(p) [] r = "admin" -> RuleAdmin(p) [] r = "anon" -> RuleAnon(p)
    [] r = "zerotime" -> RuleZeroTime(p) [] r = "hop" -> RuleHop(p) [] r = "lifetime" -> RuleLifetime(p)
Broken(p) == {Rules[i] : i \in {k \in 1..Len(Rules) : ~RuleHolds(Rules[k], p)}}
IsValidBundle(p) == Broken(p) = {}

-----------------------------------------------------------------------------
(* Part 2: abstract bundles *)
S(str) == str    \* strings are written as code tuples below

NoU == <<>>
EDtn(text) == [scheme |-> 1, kind |-> "dtn", text |-> text, node |-> NoU, svc |-> NoU, n |-> NoU]
ENone == [scheme |-> 1, kind |-> "none", text |-> <<>>, node |-> NoU, svc |-> NoU, n |-> NoU]
EIpn(node, svc) == [scheme |-> 2, kind |-> "ipn", text |-> <<>>, node |-> node, svc |-> svc, n |-> NoU]
EUint(scheme, n) == [scheme |-> scheme, kind |-> "uint", text |-> <<>>, node |-> NoU, svc |-> NoU, n |-> n]

TDst == <<47, 47, 100, 115, 116, 47, 97, 112, 112>>        \* //dst/app
TSrc == <<47, 47, 115, 114, 99, 47>>                       \* //src/
TRpt == <<47, 47, 114, 112, 116, 47, 120>>                 \* //rpt/x
TPrev == <<47, 47, 112, 114, 101, 118, 47>>                \* //prev/
TBad == <<47, 47, 98, 32, 100, 47, 120>>                   \* //b d/x   (blank in the node name)
Day == <<5, 38, 92, 0>>                                    \* 86 400 000 ms
PastU == <<7, 91, 205, 21>>                                \* 123456789 ms after 2000-01-01: decades ago

Blk(kind, type, num, flags, crc, data, args) == [kind |-> kind, type |-> type, num |-> num, flags |-> flags, crc |-> crc, data |-> data, args |-> args, w |-> 0]
BPayload(num, flags, crc, data) == Blk("payload", 1, num, flags, crc, data, [len |-> Len(data)])
BPrev(num, flags, crc, e) == Blk("prev", 6, num, flags, crc, DataPrevNode(e), [eid |-> e])
BAge(num, flags, crc, u) == Blk("age", 7, num, flags, crc, DataAge(u), [u |-> u])
BHop(num, flags, crc, limit, count) == Blk("hop", 10, num, flags, crc, DataHop(limit, count), [limit |-> limit, count |-> count])
BSpray(num, flags, crc, u) == Blk("spray", 192, num, flags, crc, DataSpray(u), [u |-> u])
BDtlsr(num, flags, crc, e, ts, peers) == Blk("dtlsr", 193, num, flags, crc, DataDtlsr(e, ts, peers), [eid |-> e, ts |-> ts, peers |-> peers])
BProphet(num, flags, crc, peers) == Blk("prophet", 194, num, flags, crc, DataProphet(peers), [peers |-> peers])
BSig(num, flags, crc, pub, sig) == Blk("sig", 195, num, flags, crc, DataSignature(pub, sig), [pub |-> pub, sig |-> sig])
BUnknown(type, num, flags, crc, data) == Blk("unknown", type, num, flags, crc, data, [len |-> Len(data)])

Fill(b, n) == [i \in 1..n |-> b]
Ramp(n) == [i \in 1..n |-> (i * 7) % 256]

Prim(flags, crc, dst, src, rpt, ts, seq, life) ==
  [ver |-> 7, flags |-> flags, crc |-> crc, dst |-> dst, src |-> src, rpt |-> rpt, ts |-> ts, seq |-> seq, life |-> life,
   frag |-> FALSE, foff |-> NoU, ftotal |-> NoU, w |-> 0]
AsFrag(p, foff, ftotal) == [p EXCEPT !.frag = TRUE, !.foff = foff, !.ftotal = ftotal,
                                     !.flags = IF Bit(IntOfU(p.flags), 1) THEN p.flags ELSE UOfInt(IntOfU(p.flags) + 1)]

Bndl(fam, tag, primary, blocks) == [fam |-> fam, tag |-> tag, primary |-> primary, blocks |-> blocks]

P0 == Prim(NoU, 2, EDtn(TDst), EDtn(TSrc), EDtn(TRpt), NowU, <<3>>, Day)
Pay0 == BPayload(1, 0, 0, Ramp(12))

(* ---- families for C01 / C03 ---- *)
FlagBits == <<1, 2, 4, 32, 64, 16384, 65536, 131072, 262144>>
RECURSIVE VSumSet(_)
VSumSet(s) == IF s = {} THEN 0 ELSE LET x == CHOOSE y \in s : TRUE IN x + VSumSet(s \ {x})
FlagValues == {VSumSet(s) : s \in SUBSET {FlagBits[i] : i \in 1..Len(FlagBits)}}
Admissible(f) == ~(Bit(f, 1) /\ Bit(f, 4)) /\ (Bit(f, 2) => ~ReportFlags(f))

FlagCases == {Bndl("flags", <<f>>, IF Bit(f, 1) THEN AsFrag([P0 EXCEPT !.flags = UOfInt(f)], <<5>>, <<1, 0>>) ELSE [P0 EXCEPT !.flags = UOfInt(f)],
                   <<BHop(2, 0, 1, 9, 3), Pay0>>) : f \in {g \in FlagValues : Admissible(g)}}

ExtKinds == {"prev", "age", "hop", "spray", "dtlsr", "prophet", "sig", "unknown"}
ExtOf(k, num, crc) ==
  CASE k = "prev" -> BPrev(num, 0, crc, EDtn(TPrev))
    [] k = "age" -> BAge(num, 0, crc, <<1, 44>>)
    [] k = "hop" -> BHop(num, 1, crc, 64, 2)
    [] k = "spray" -> BSpray(num, 0, crc, <<8>>)
    [] k = "dtlsr" -> BDtlsr(num, 0, crc, EDtn(TSrc), <<1, 0, 0, 0, 0>>, <<<<EIpn(<<7>>, <<1>>), <<>>>>>>)
    [] k = "prophet" -> BProphet(num, 0, crc, <<<<EDtn(TPrev), <<63, 185, 153, 153, 153, 153, 153, 154>>>>>>)     \* 0.1
    [] k = "sig" -> BSig(num, 1, crc, Fill(17, 32), Ramp(64))
    [] k = "unknown" -> BUnknown(222, num, 16, crc, <<1, 2, 3>>)
KindOrder == <<"prev", "age", "hop", "spray", "dtlsr", "prophet", "sig", "unknown">>
BlocksOfSet(s, crc) ==
  LET sel == SelectSeq(KindOrder, LAMBDA k : k \in s)
  IN [i \in 1..Len(sel) |-> ExtOf(sel[i], i + 1, (crc + i) % 3)] \o <<BPayload(1, 0, crc, Ramp(5))>>
BlockCases == {Bndl("blocks", <<Cardinality(s), c>>, P0, BlocksOfSet(s, c)) : s \in SUBSET ExtKinds, c \in 0..2}

CrcCases == {Bndl("crc", <<pc, hc, yc>>, [P0 EXCEPT !.crc = pc], <<BHop(2, 0, hc, 9, 3), BPayload(1, 0, yc, Ramp(30))>>) : pc \in 1..2, hc \in 0..2, yc \in 0..2}

Boundaries == {<<>>, <<1>>, <<23>>, <<24>>, <<255>>, <<1, 0>>, <<255, 255>>, <<1, 0, 0>>, <<255, 255, 255, 255>>, <<1, 0, 0, 0, 0>>,
               <<127, 255, 255, 255, 255, 255, 255, 255>>, <<255, 255, 255, 255, 255, 255, 255, 255>>}
WidthCases ==
     {Bndl("width-seq", u, [P0 EXCEPT !.seq = u], <<Pay0>>) : u \in Boundaries}
  \cup {Bndl("width-life", u, [P0 EXCEPT !.life = u, !.ts = NowU], <<Pay0>>) : u \in (Boundaries \ {<<>>, <<1>>, <<23>>, <<24>>, <<255>>})}
  \cup {Bndl("width-frag", u, AsFrag(P0, u, u), <<Pay0>>) : u \in Boundaries}
  \cup {Bndl("width-ipn", u, [P0 EXCEPT !.src = EIpn(u, <<1>>), !.dst = EIpn(<<1>>, u)], <<Pay0>>) : u \in (Boundaries \ {<<>>})}
  \cup {Bndl("width-age", u, [P0 EXCEPT !.ts = NoU, !.life = <<255, 255, 255, 255, 255, 255, 255, 255>>], <<BAge(2, 0, 1, u), Pay0>>) : u \in Boundaries}
  \cup {Bndl("width-spray", u, P0, <<BSpray(2, 0, 2, u), Pay0>>) : u \in Boundaries}
  \cup {Bndl("width-type", UOfInt(t), P0, <<BUnknown(t, 2, 0, 1, <<9>>), Pay0>>) : t \in {11, 23, 24, 255, 256, 65535, 65536}}
  \cup {Bndl("width-num", UOfInt(t), P0, <<BHop(t, 0, 1, 5, 1), Pay0>>) : t \in {2, 23, 24, 255, 256, 65535, 65536}}

PayloadLens == {0, 1, 22, 23, 24, 25, 254, 255, 256, 257}
PayloadCases == {Bndl("payload", <<n, c>>, P0, <<BPayload(1, 0, c, Ramp(n))>>) : n \in PayloadLens, c \in 0..2}

EidTuples == << <<EDtn(TDst), EDtn(TSrc), ENone, NoU, ENone>>,
               <<EIpn(<<23>>, <<42>>), EIpn(<<1>>, <<1>>), EIpn(<<1>>, <<1, 0>>), NoU, EIpn(<<9>>, <<9>>)>>,
               <<EDtn(TDst), ENone, ENone, <<4>>, EDtn(TPrev)>>,
               <<ENone, EDtn(TSrc), EDtn(TSrc), NoU, EDtn(TSrc)>>,
               \* demux parts with characters a URI library would escape: //dst/in?p=1  //src/a%41#f  //rpt/(x)!  //prev/a b
               <<EDtn(<<47, 47, 100, 115, 116, 47, 105, 110, 63, 112, 61, 49>>), EDtn(<<47, 47, 115, 114, 99, 47, 97, 37, 52, 49, 35, 102>>),
                 EDtn(<<47, 47, 114, 112, 116, 47, 40, 120, 41, 33>>), NoU, EDtn(<<47, 47, 112, 114, 101, 118, 47, 97, 32, 98>>)>> >>
EidCases ==
  {Bndl("eids", <<i>>, [P0 EXCEPT !.dst = EidTuples[i][1], !.src = EidTuples[i][2], !.rpt = EidTuples[i][3], !.flags = EidTuples[i][4]],
        <<BPrev(2, 0, 1, EidTuples[i][5]), Pay0>>) : i \in 1..Len(EidTuples)}

(* map-valued blocks with 0..3 entries and each CRC type on the block itself: the serialiser writes the entries in an order
   of its own choosing, every such order must be accepted again (the harness repeats these round trips) *)
PeerIds == <<EDtn(TPrev), EIpn(<<7>>, <<1>>), EDtn(TSrc)>>
DtlsrPeers(n) == [i \in 1..n |-> <<PeerIds[i], <<i * 3>>>>]
\* predictabilities whose bit patterns use the whole mantissa: 0.1, 1/3, the largest value below 1 (nothing a shorter float holds)
Preds == << <<63, 185, 153, 153, 153, 153, 153, 154>>, <<63, 213, 85, 85, 85, 85, 85, 85>>, <<63, 239, 255, 255, 255, 255, 255, 255>> >>
ProphetPeers(n) == [i \in 1..n |-> <<PeerIds[i], Preds[i]>>]
MapCases ==
     {Bndl("maps-dtlsr", <<n, c>>, P0, <<BDtlsr(2, 0, c, EDtn(TSrc), <<1, 0, 0, 0, 0>>, DtlsrPeers(n)), Pay0>>) : n \in 0..3, c \in 0..2}
  \cup {Bndl("maps-prophet", <<n, c>>, P0, <<BProphet(2, 0, c, ProphetPeers(n)), Pay0>>) : n \in 0..3, c \in 0..2}
  \cup {Bndl("maps-both", <<n, c>>, P0, <<BDtlsr(2, 0, c, EDtn(TSrc), <<9>>, DtlsrPeers(n)), BProphet(3, 0, 3 - c, ProphetPeers(n)), BPayload(1, 0, c, Ramp(4))>>) : n \in 2..3, c \in 1..2}

(* the same bundles with every integer of the primary and canonical block headers in a head of 1, 2, 4 or 8 argument bytes:
   well-formed, accepted by the parser, and never what the serialiser writes itself *)
WideCases == {Bndl("wide", <<w, c>>, [P0 EXCEPT !.w = w, !.crc = c],
                   <<[BHop(2, 1, c, 9, 3) EXCEPT !.w = w], [BAge(3, 0, 3 - c, <<1, 44>>) EXCEPT !.w = w], [BPayload(1, 0, c, Ramp(12)) EXCEPT !.w = w]>>) :
                w \in {1, 2, 4, 8}, c \in 1..2}
           \cup {Bndl("wide-frag", <<w>>, [AsFrag(P0, <<5>>, <<1, 0>>) EXCEPT !.w = w], <<[Pay0 EXCEPT !.w = w]>>) : w \in {1, 8}}

(* ---- rule-violating mutants for C02: each mutation is a function on an abstract bundle ---- *)
MBase == Bndl("mut", <<>>, [P0 EXCEPT !.flags = <<64>>], <<BPrev(2, 0, 1, EDtn(TPrev)), BHop(3, 0, 2, 9, 3), BPayload(1, 0, 1, Ramp(9))>>)
Mutations == <<"ver", "nopayload", "twopayload", "paynum", "paynotlast", "dupnum", "duptype", "badipn-src", "baddtn-dst", "badprev",
               "fragmnf", "adminreq", "anonreq", "anonnomnf", "anonblockreq", "adminblockreq", "zeronoage", "hopexceeded",
               "expired-ts", "expired-age", "hopwide", "limitwide", "verwide", "nopayload-num1">>
SetFlags(b, f) == [b EXCEPT !.primary.flags = UOfInt(f)]
AddFlag(b, f) == IF Bit(IntOfU(b.primary.flags), f) THEN b ELSE SetFlags(b, IntOfU(b.primary.flags) + f)
Apply(m, b) ==
  CASE m = "ver" -> [b EXCEPT !.primary.ver = 6]
    [] m = "nopayload" -> [b EXCEPT !.blocks = SelectSeq(b.blocks, LAMBDA x : x.type # 1)]
    [] m = "twopayload" -> [b EXCEPT !.blocks = <<BPayload(7, 0, 1, <<1, 2>>)>> \o b.blocks]
    [] m = "paynum" -> [b EXCEPT !.blocks = [i \in 1..Len(b.blocks) |-> IF b.blocks[i].type = 1 THEN [b.blocks[i] EXCEPT !.num = 5] ELSE b.blocks[i]]]
    [] m = "paynotlast" -> IF Len(b.blocks) < 2 THEN b ELSE [b EXCEPT !.blocks = <<Last(b.blocks)>> \o Front(b.blocks)]
    [] m = "dupnum" -> [b EXCEPT !.blocks = <<BAge(3, 0, 1, <<5>>)>> \o b.blocks]
    [] m = "duptype" -> [b EXCEPT !.blocks = <<BHop(11, 0, 1, 7, 1)>> \o b.blocks]
    [] m = "badipn-src" -> [b EXCEPT !.primary.src = EIpn(NoU, <<1>>)]
    [] m = "baddtn-dst" -> [b EXCEPT !.primary.dst = EDtn(TBad)]
    [] m = "badprev" -> [b EXCEPT !.blocks = <<BPrev(12, 0, 1, EIpn(<<4>>, NoU))>> \o SelectSeq(b.blocks, LAMBDA x : x.type # 6)]
    [] m = "fragmnf" -> [AddFlag(AddFlag(b, 1), 4) EXCEPT !.primary.frag = TRUE, !.primary.foff = <<2>>, !.primary.ftotal = <<50>>]
    [] m = "adminreq" -> AddFlag(AddFlag(b, 2), 131072)
    [] m = "anonreq" -> [AddFlag(AddFlag(b, 4), 16384) EXCEPT !.primary.src = ENone]
    [] m = "anonnomnf" -> [b EXCEPT !.primary.src = ENone]
    [] m = "anonblockreq" -> [AddFlag(b, 4) EXCEPT !.primary.src = ENone, !.blocks = <<BUnknown(200, 13, 2, 1, <<7>>)>> \o b.blocks]
    [] m = "adminblockreq" -> [AddFlag(b, 2) EXCEPT !.blocks = <<BUnknown(201, 14, 2, 1, <<7>>)>> \o b.blocks]
    [] m = "zeronoage" -> [b EXCEPT !.primary.ts = NoU]
    [] m = "hopexceeded" -> [b EXCEPT !.blocks = <<BHop(15, 0, 1, 4, 5)>> \o SelectSeq(b.blocks, LAMBDA x : x.type # 10)]
    \* values beyond the 8 bits the implementation keeps for these fields: 259 = 256 + 3 must not be read as 3
    [] m = "hopwide" -> [b EXCEPT !.blocks = <<BHop(15, 0, 1, 9, 259)>> \o SelectSeq(b.blocks, LAMBDA x : x.type # 10)]
    [] m = "limitwide" -> [b EXCEPT !.blocks = <<BHop(15, 0, 1, 265, 3)>> \o SelectSeq(b.blocks, LAMBDA x : x.type # 10)]
    [] m = "verwide" -> [b EXCEPT !.primary.ver = 263]
    \* no payload block at all, but the last block bears the payload's number
    [] m = "nopayload-num1" -> LET rest == SelectSeq(b.blocks, LAMBDA x : x.type # 1)
                               IN [b EXCEPT !.blocks = [i \in 1..Len(rest) |-> IF i = Len(rest) THEN [rest[i] EXCEPT !.num = 1] ELSE rest[i]]]
    [] m = "expired-ts" -> [b EXCEPT !.primary.ts = PastU, !.primary.life = <<3, 232>>]
    [] m = "expired-age" -> [b EXCEPT !.primary.ts = NoU, !.primary.life = <<3, 232>>, !.blocks = <<BAge(16, 0, 1, <<39, 16>>)>> \o SelectSeq(b.blocks, LAMBDA x : x.type # 7)]
\* also the benign twin of "zeronoage": zero time *with* an age block must stay acceptable
Benign == {[MBase EXCEPT !.tag = <<"benign-zero-with-age">>, !.primary.ts = NoU, !.blocks = <<BAge(9, 0, 1, <<5>>)>> \o MBase.blocks],
           [MBase EXCEPT !.tag = <<"benign-base">>],
           [AddFlag(MBase, 4) EXCEPT !.tag = <<"benign-anon">>, !.primary.src = ENone, !.primary.flags = <<4>>],
           [MBase EXCEPT !.tag = <<"benign-hop-at-limit">>, !.blocks = <<BHop(15, 0, 1, 4, 4)>> \o SelectSeq(MBase.blocks, LAMBDA x : x.type # 10)]}

MutSingles == {[Apply(Mutations[i], MBase) EXCEPT !.tag = <<Mutations[i]>>] : i \in 1..Len(Mutations)}
MutPairs == {[Apply(Mutations[j], Apply(Mutations[i], MBase)) EXCEPT !.tag = <<Mutations[i], Mutations[j]>>] : i, j \in 1..Len(Mutations)}
RECURSIVE ApplyAll(_, _)
ApplyAll(ms, b) == IF ms = <<>> THEN b ELSE ApplyAll(Tail(ms), Apply(ms[1], b))
MutTriples == {[ApplyAll(<<Mutations[i], Mutations[j], Mutations[k]>>, MBase) EXCEPT !.tag = <<Mutations[i], Mutations[j], Mutations[k]>>] :
                 i, j, k \in 1..Len(Mutations)}

Cases ==
  CASE Family = "flags" -> FlagCases
    [] Family = "blocks" -> BlockCases
    [] Family = "crc" -> CrcCases
    [] Family = "widths" -> WidthCases
    [] Family = "payload" -> PayloadCases
    [] Family = "eids" -> EidCases
    [] Family = "maps" -> MapCases
    [] Family = "wide" -> WideCases
    [] Family = "mut1" -> MutSingles \cup Benign
    [] Family = "mut2" -> MutPairs
    [] Family = "mut3" -> MutTriples

VARIABLE b
Init == b \in Cases
Next == UNCHANGED b
Spec == Init /\ [][Next]_b

Render(x) == [fam |-> x.fam, tag |-> x.tag, primary |-> x.primary, blocks |-> x.blocks, bytes |-> EncBundle(x)]
Emit == PrintT(<<"TRACE", ToJson(Render(b))>>)
=============================================================================
