package common

// Shared helper for all in-package verification harnesses (copied into the target package through
// `go test -overlay`; the package clause is rewritten). Standard library only.

import (
	"bufio"
	"encoding/json"
	"fmt"
	"os"
	"strconv"
	"strings"
	"sync"
)

type vhRec map[string]interface{}

var (
	vhMu   sync.Mutex
	vhFile *os.File
	vhBuf  *bufio.Writer
)

func vhOpen() {
	vhMu.Lock()
	defer vhMu.Unlock()
	if vhFile != nil {
		return
	}
	p := os.Getenv("VERIF_OUT")
	if p == "" {
		p = os.DevNull
	}
	f, err := os.OpenFile(p, os.O_CREATE|os.O_WRONLY|os.O_APPEND, 0o644)
	if err != nil {
		panic(err)
	}
	vhFile = f
	vhBuf = bufio.NewWriterSize(f, 1<<20)
}

func vhEmit(r vhRec) {
	vhOpen()
	b, err := json.Marshal(r)
	if err != nil {
		b, _ = json.Marshal(vhRec{"k": "note", "v": fmt.Sprintf("marshal error: %v", err)})
	}
	vhMu.Lock()
	vhBuf.Write(b)
	vhBuf.WriteByte('\n')
	vhMu.Unlock()
}

func vhFlush() {
	vhMu.Lock()
	if vhBuf != nil {
		vhBuf.Flush()
	}
	vhMu.Unlock()
}

func vhStat(name string, n int) { vhEmit(vhRec{"k": "stat", "name": name, "n": n}) }
func vhSample(v interface{})     { vhEmit(vhRec{"k": "sample", "v": v}) }
func vhNote(v interface{})       { vhEmit(vhRec{"k": "note", "v": v}) }

// vhViol reports a contradiction between the real code and the property.
// key is a stable classification (used by known_findings.txt); replay is self-contained.
func vhViol(key, desc string, replay interface{}) {
	vhEmit(vhRec{"k": "viol", "key": key, "desc": desc, "replay": replay})
}

func vhDone() {
	vhEmit(vhRec{"k": "done"})
	vhFlush()
}

func vhSeed() int64 {
	n, err := strconv.ParseInt(os.Getenv("VERIF_SEED"), 10, 64)
	if err != nil {
		return 1
	}
	return n
}

func vhEnvInt(name string, def int) int {
	n, err := strconv.Atoi(os.Getenv(name))
	if err != nil {
		return def
	}
	return n
}

// vhSkipSet: case indexes to skip (set by the orchestrator after a crash was attributed to them).
func vhSkipSet() map[int]bool {
	m := map[int]bool{}
	for _, f := range strings.Split(os.Getenv("VERIF_SKIP"), ",") {
		if n, err := strconv.Atoi(f); err == nil {
			m[n] = true
		}
	}
	return m
}

// vhBegin / vhEnd bracket one case so that a crash of the whole process can be attributed.
func vhBegin(idx, only int, item []byte) {
	vhEmit(vhRec{"k": "begin", "idx": idx})
	if only >= 0 {
		vhEmit(vhRec{"k": "case", "idx": idx, "v": json.RawMessage(item)})
	}
	vhFlush()
}

func vhEnd(idx int) { vhEmit(vhRec{"k": "end", "idx": idx}) }

func vhScratch() string {
	d := os.Getenv("VERIF_SCRATCH")
	if d == "" {
		d = os.TempDir()
	}
	return d
}

// vhLines streams the NDJSON file at path; each line is handed to fn.
func vhLines(path string, fn func(line []byte)) error {
	f, err := os.Open(path)
	if err != nil {
		return err
	}
	defer f.Close()
	sc := bufio.NewScanner(f)
	sc.Buffer(make([]byte, 1<<20), 1<<28)
	for sc.Scan() {
		b := sc.Bytes()
		if len(b) == 0 {
			continue
		}
		c := make([]byte, len(b))
		copy(c, b)
		fn(c)
	}
	return sc.Err()
}

// vhParallel runs fn over items on n workers.
func vhParallel(n int, items [][]byte, fn func(idx int, item []byte)) {
	var wg sync.WaitGroup
	ch := make(chan int, 1024)
	for w := 0; w < n; w++ {
		wg.Add(1)
		go func() {
			defer wg.Done()
			for i := range ch {
				fn(i, items[i])
			}
		}()
	}
	for i := range items {
		ch <- i
	}
	close(ch)
	wg.Wait()
}
