"""Shared by C01 C02 C03: Valid.tla generator families, WireCheck.tla record judgement."""
import json, os, time
from vlib import *

FILES = ["common/vh.go", "bpv7/frag.go", "bpv7/wire.go"]


def now_u():
    ms = int(time.time() * 1000) - 946684800000
    out = []
    while ms:
        out.insert(0, ms & 255)
        ms >>= 8
    return out


def mc_module():
    return {"MCValid.tla": "---- MODULE MCValid ----\nEXTENDS Valid\nMCNow == <<%s>>\n====\n" % ", ".join(map(str, now_u())),
            "MCWireCheck.tla": "---- MODULE MCWireCheck ----\nEXTENDS WireCheck\nMCNow == <<%s>>\n====\n" % ", ".join(map(str, now_u()))}


def generate(chk, families):
    """TLC enumerates the abstract bundles of each family and encodes them. Returns list of cases."""
    jobs = []
    for fam in families:
        cfg = 'SPECIFICATION Spec\nCONSTANTS\n Family = "%s"\n NowU <- MCNow\nINVARIANTS Emit\n' % fam
        jobs.append((fam, dict(module="MCValid", cfg_text=cfg, name="valid-" + fam, extra_files=mc_module(), deadlock=False, timeout=1200)))
    res = tlc_parallel(jobs, par=6)
    cases = []
    for fam in families:
        r = need_ok(res[fam], "generator " + fam)
        if not r.traces:
            raise InfraError("family %s generated nothing" % fam)
        chk.add_tlc("Valid.tla family " + fam, r)
        cases += r.traces
    return cases


WCONSTS = ' Family = "crc"\n NowU <- MCNow'


def judge(chk, recs, keyprefix, keyfn=None):
    n, bad, results = check_records("MCWireCheck", WCONSTS, recs, name="wirecheck-" + chk.pid, extra_files=mc_module())
    unj = 0
    for r in results:
        chk.add_tlc("WireCheck records", r)
        unj += len(r.tagged.get("UNJUDGED", []))
    for idx, problems in bad:
        r = recs[idx]
        for p in problems:
            key = "%s/%s" % (keyprefix, p)
            if keyfn:
                key = keyfn(key, r)
            chk.violation(key, "record judged by WireCheck.tla: %s" % json.dumps(r)[:700], r)
    return n, len(bad), unj
