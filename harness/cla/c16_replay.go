package cla

// C16: replay of ClaManager.tla behaviours against the real cla.Manager.

import (
	"encoding/json"
	"errors"
	"fmt"
	"io"
	"os"
	"sort"
	"sync"
	"testing"
	"time"

	log "github.com/sirupsen/logrus"

	"github.com/dtn7/dtn7-go/pkg/bpv7"
)

type vmCfg struct {
	Addr   []string          `json:"addr"`
	NInst  int               `json:"ninst"`
	Budget int32             `json:"budget"`
	Perm   []string          `json:"perm"`
	Kind   map[string]string `json:"kind"`
	Loop   map[string]string `json:"loop"`
}

type vmExp struct {
	Active  []string          `json:"active"`
	Starts  map[string][]int  `json:"starts"`
	Closes  map[string][]int  `json:"closes"`
	Running map[string][]bool `json:"running"`
}

type vmStep struct {
	Act string            `json:"act"`
	A   string            `json:"a"`
	I   int               `json:"i"`
	Res string            `json:"res"`
	Rf  map[string]string `json:"rf"`
	Exp vmExp             `json:"exp"`
}

// ---- scripted adapters -------------------------------------------------------------------------

type vmScript struct {
	mu  sync.Mutex
	res map[string]string
}

func (s *vmScript) get(a string) string {
	s.mu.Lock()
	defer s.mu.Unlock()
	return s.res[a]
}
func (s *vmScript) set(a, r string) {
	s.mu.Lock()
	s.res[a] = r
	s.mu.Unlock()
}

type vmBase struct {
	addr    string
	inst    int
	perm    bool
	script  *vmScript
	ch      chan ConvergenceStatus
	mu      sync.Mutex
	starts  int
	closes  int
	running bool
	misuse  string
}

func (m *vmBase) Start() (error, bool) {
	m.mu.Lock()
	defer m.mu.Unlock()
	m.starts++
	if m.running {
		m.misuse = "Start on a started adapter"
	}
	switch m.script.get(m.addr) {
	case "ok":
		m.running = true
		return nil, false
	case "failRetry":
		return errors.New("scripted failure, retry"), true
	default:
		return errors.New("scripted failure, no retry"), false
	}
}

func (m *vmBase) Close() error {
	m.mu.Lock()
	defer m.mu.Unlock()
	m.closes++
	if !m.running {
		m.misuse = "Close on an adapter that is not started"
	}
	m.running = false
	return nil
}

func (m *vmBase) Channel() chan ConvergenceStatus { return m.ch }
func (m *vmBase) Address() string                 { return m.addr }
func (m *vmBase) IsPermanent() bool               { return m.perm }
func (m *vmBase) String() string                  { return fmt.Sprintf("vm(%s#%d)", m.addr, m.inst) }

type vmSender struct {
	vmBase
	peer bpv7.EndpointID
}

func (m *vmSender) Send(bpv7.Bundle) error             { return nil }
func (m *vmSender) GetPeerEndpointID() bpv7.EndpointID { return m.peer }

type vmReceiver struct {
	vmBase
	eid bpv7.EndpointID
}

func (m *vmReceiver) GetEndpointID() bpv7.EndpointID { return m.eid }

func vmBaseOf(c Convergence) *vmBase {
	switch v := c.(type) {
	case *vmSender:
		return &v.vmBase
	case *vmReceiver:
		return &v.vmBase
	}
	return nil
}

// ---- ticker hook --------------------------------------------------------------------------------

var (
	vmTickers  sync.Map // *Manager -> chan time.Time
	vmHookOnce sync.Once
)

func vmInstallHook() {
	vmHookOnce.Do(func() {
		VerifTickerHook = func(m *Manager, t *time.Ticker) {
			ch := make(chan time.Time)
			t.C = ch
			vmTickers.Store(m, ch)
		}
	})
}

func vmTickChan(m *Manager) (chan time.Time, error) {
	deadline := time.Now().Add(5 * time.Second)
	for time.Now().Before(deadline) {
		if v, ok := vmTickers.Load(m); ok {
			return v.(chan time.Time), nil
		}
		time.Sleep(50 * time.Microsecond)
	}
	return nil, errors.New("ticker hook was not called (hook removed?)")
}

// ---- one replay ---------------------------------------------------------------------------------

type vmWorld struct {
	cfg    vmCfg
	m      *Manager
	tick   chan time.Time
	script *vmScript
	mocks  map[string][]Convergence
	out    chan ConvergenceStatus
}

func vmNewWorld(cfg vmCfg) (*vmWorld, error) {
	w := &vmWorld{cfg: cfg, script: &vmScript{res: map[string]string{}}, mocks: map[string][]Convergence{}}
	perm := map[string]bool{}
	for _, p := range cfg.Perm {
		perm[p] = true
	}
	for _, a := range cfg.Addr {
		for i := 1; i <= cfg.NInst; i++ {
			base := vmBase{addr: a, inst: i, perm: perm[a], script: w.script, ch: make(chan ConvergenceStatus)}
			if cfg.Kind[a] == "R" {
				w.mocks[a] = append(w.mocks[a], &vmReceiver{vmBase: base, eid: bpv7.MustNewEndpointID("dtn://" + a + "/")})
			} else {
				peer := "dtn://peer-" + a + "/"
				if l, ok := cfg.Loop[a]; ok && l != "none" {
					peer = "dtn://" + l + "/"
				}
				w.mocks[a] = append(w.mocks[a], &vmSender{vmBase: base, peer: bpv7.MustNewEndpointID(peer)})
			}
		}
	}
	w.m = NewManager()
	w.m.queueTtl = cfg.Budget
	tc, err := vmTickChan(w.m)
	if err != nil {
		return nil, err
	}
	w.tick = tc
	w.out = make(chan ConvergenceStatus, 64)
	go func(m *Manager, out chan ConvergenceStatus) {
		for cs := range m.Channel() {
			out <- cs
		}
		close(out)
	}(w.m, w.out)
	return w, nil
}

const vmBarrier ConvergenceMessageType = 4242

// barrier: a status of an unknown type injected into the manager's input queue comes out of the output channel
// only after the handler goroutine finished everything queued before it.
func (w *vmWorld) barrier() error {
	w.m.inChnl <- ConvergenceStatus{MessageType: vmBarrier}
	to := time.After(5 * time.Second)
	for {
		select {
		case cs, ok := <-w.out:
			if !ok {
				return errors.New("manager channel closed")
			}
			if cs.MessageType == vmBarrier {
				return nil
			}
		case <-to:
			return errors.New("deadlock: manager handler does not respond")
		}
	}
}

func (w *vmWorld) observe() vmExp {
	e := vmExp{Starts: map[string][]int{}, Closes: map[string][]int{}, Running: map[string][]bool{}}
	act := map[string]bool{}
	for _, s := range w.m.Sender() {
		act[s.Address()] = true
	}
	for _, r := range w.m.Receiver() {
		act[r.Address()] = true
	}
	for a := range act {
		e.Active = append(e.Active, a)
	}
	sort.Strings(e.Active)
	for a, ms := range w.mocks {
		for _, c := range ms {
			b := vmBaseOf(c)
			b.mu.Lock()
			e.Starts[a] = append(e.Starts[a], b.starts)
			e.Closes[a] = append(e.Closes[a], b.closes)
			e.Running[a] = append(e.Running[a], b.running)
			b.mu.Unlock()
		}
	}
	return e
}

func vmEqual(x, y vmExp) bool {
	xa := append([]string{}, x.Active...)
	ya := append([]string{}, y.Active...)
	sort.Strings(xa)
	sort.Strings(ya)
	if fmt.Sprint(xa) != fmt.Sprint(ya) {
		return false
	}
	for a := range x.Starts {
		if fmt.Sprint(x.Starts[a]) != fmt.Sprint(y.Starts[a]) || fmt.Sprint(x.Closes[a]) != fmt.Sprint(y.Closes[a]) ||
			fmt.Sprint(x.Running[a]) != fmt.Sprint(y.Running[a]) {
			return false
		}
	}
	return true
}

// step executes one action; returns an error string for deadlock/panic.
func (w *vmWorld) step(s vmStep) (problem string) {
	done := make(chan string, 1)
	go func() {
		defer func() {
			if r := recover(); r != nil {
				done <- fmt.Sprintf("panic: %v", r)
			}
		}()
		var conv Convergence
		if s.A != "" && s.I >= 1 {
			conv = w.mocks[s.A][s.I-1]
		}
		switch s.Act {
		case "Register":
			w.script.set(s.A, s.Res)
			w.m.Register(conv)
		case "Unregister":
			w.m.Unregister(conv)
		case "Restart":
			w.script.set(s.A, s.Res)
			w.m.Restart(conv)
		case "PeerGone":
			w.script.set(s.A, s.Res)
			b := vmBaseOf(conv)
			var peer bpv7.EndpointID
			if sn, ok := conv.(*vmSender); ok {
				peer = sn.peer
			} else {
				peer = conv.(*vmReceiver).eid
			}
			select {
			case b.ch <- NewConvergencePeerDisappeared(conv, peer):
			case <-time.After(5 * time.Second):
				done <- "deadlock: nobody reads the channel of an adapter that should be active"
				return
			}
			// wait until the manager passed the message on (it restarts the adapter before)
			to := time.After(5 * time.Second)
			for got := false; !got; {
				select {
				case cs, ok := <-w.out:
					if !ok {
						done <- "manager channel closed unexpectedly"
						return
					}
					got = cs.MessageType == PeerDisappeared
				case <-to:
					done <- "deadlock: PeerDisappeared never forwarded"
					return
				}
			}
		case "Tick":
			for a, r := range s.Rf {
				w.script.set(a, r)
			}
			select {
			case w.tick <- time.Now():
			case <-time.After(5 * time.Second):
				done <- "deadlock: handler does not take the retry tick"
				return
			}
			if err := w.barrier(); err != nil {
				done <- err.Error()
				return
			}
		case "Close":
			if err := w.m.Close(); err != nil {
				done <- "Close returned " + err.Error()
				return
			}
		default:
			done <- "harness: unknown action " + s.Act
			return
		}
		done <- ""
	}()
	select {
	case p := <-done:
		return p
	case <-time.After(8 * time.Second):
		return "deadlock: " + s.Act + " does not return"
	}
}

func vmReplay(cfg vmCfg, hist []vmStep, idx int) (ok bool) {
	w, err := vmNewWorld(cfg)
	if err != nil {
		vhEmit(vhRec{"k": "infra", "v": err.Error()})
		return false
	}
	closed := false
	for n, s := range hist {
		problem := w.step(s)
		if s.Act == "Close" {
			closed = true
		}
		if problem != "" {
			key := "manager/" + s.Act + "/" + vmClass(problem)
			vhViol(key, fmt.Sprintf("step %d (%s %s#%d %s): %s", n, s.Act, s.A, s.I, s.Res, problem),
				vhRec{"cfg": cfg, "history": hist[:n+1], "problem": problem})
			return false
		}
		obs := w.observe()
		if !vmEqual(s.Exp, obs) {
			key := "manager/" + s.Act + "/projection"
			vhViol(key, fmt.Sprintf("after step %d (%s %s#%d %s): expected %+v, observed %+v", n, s.Act, s.A, s.I, s.Res, s.Exp, obs),
				vhRec{"cfg": cfg, "history": hist[:n+1], "expected": s.Exp, "observed": obs})
			return false // the manager is left behind un-closed on purpose: its state is not trustworthy
		}
		for _, ms := range w.mocks {
			for _, c := range ms {
				if b := vmBaseOf(c); b.misuse != "" {
					vhViol("manager/"+s.Act+"/adapter-misuse", b.misuse, vhRec{"cfg": cfg, "history": hist[:n+1]})
					return false
				}
			}
		}
	}
	if !closed {
		if p := w.step(vmStep{Act: "Close"}); p != "" {
			vhViol("manager/Close/"+vmClass(p), "final Close: "+p, vhRec{"cfg": cfg, "history": hist})
			return false
		}
		obs := w.observe()
		for a, rs := range obs.Running {
			for i, r := range rs {
				if r || obs.Closes[a][i] > obs.Starts[a][i] {
					vhViol("manager/Close/not-stopped", fmt.Sprintf("after final Close adapter %s#%d running=%v closes=%d", a, i+1, r, obs.Closes[a][i]),
						vhRec{"cfg": cfg, "history": hist})
					return false
				}
			}
		}
	}
	vmTickers.Delete(w.m)
	return true
}

func vmClass(p string) string {
	switch {
	case len(p) >= 5 && p[:5] == "panic":
		return "panic"
	case len(p) >= 8 && p[:8] == "deadlock":
		return "deadlock"
	}
	return "error"
}

func TestVerifC16Replay(t *testing.T) {
	log.SetOutput(io.Discard)
	log.SetLevel(log.PanicLevel)
	vmInstallHook()
	path := os.Getenv("VERIF_IN")
	cfgs := map[int]vmCfg{}
	var items [][]byte
	if err := vhLines(path, func(b []byte) {
		var h struct {
			Cfg *vmCfg `json:"cfg"`
			W   int    `json:"w"`
		}
		if len(b) < 200 || b[2] == 'c' {
			if err := json.Unmarshal(b, &h); err == nil && h.Cfg != nil {
				cfgs[h.W] = *h.Cfg
				return
			}
		}
		items = append(items, b)
	}); err != nil {
		t.Fatal(err)
	}
	only := vhEnvInt("VERIF_ONLY", -1)
	skip := vhSkipSet()
	var mu sync.Mutex
	okN, stepsN := 0, 0
	acts := map[string]int{}
	vhParallel(vhEnvInt("VERIF_PAR", 8), items, func(idx int, item []byte) {
		if (only >= 0 && idx != only) || skip[idx] {
			return
		}
		var it struct {
			W int      `json:"w"`
			H []vmStep `json:"h"`
		}
		if err := json.Unmarshal(item, &it); err != nil {
			vhEmit(vhRec{"k": "infra", "v": err.Error()})
			return
		}
		hist, cfg := it.H, cfgs[it.W]
		vhBegin(idx, only, item)
		ok := vmReplay(cfg, hist, idx)
		vhEnd(idx)
		mu.Lock()
		if ok {
			okN++
		}
		stepsN += len(hist)
		for _, s := range hist {
			acts[s.Act]++
		}
		if idx%5000 == 1 {
			vhSample(vhRec{"history": json.RawMessage(item)})
		}
		mu.Unlock()
	})
	vhStat("histories", len(items))
	vhStat("histories_conforming", okN)
	vhStat("steps", stepsN)
	for a, n := range acts {
		vhStat("act_"+a, n)
	}
	vhDone()
}
