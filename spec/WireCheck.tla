---------------------------- MODULE WireCheck ----------------------------
(* Judgement of records written by the real code (harness/bpv7/wire.go):                        *)
(*  t = "parse":    parser verdict + projection of the parsed struct  -> Valid!IsValidBundle (C02) *)
(*  t = "produced": bundle returned by a producer of the code base    -> valid and re-parsable (C02) *)
(*  t = "ser":      real serialisation of a fully CRC-protected bundle -> every CRC correct (C03)   *)
(*  t = "mut":      corrupted encoding the parser ACCEPTED             -> no declared CRC wrong; no   *)
(*                  single-bit change, no burst inside unchanged block boundaries (C03)            *)
EXTENDS Valid

CONSTANT RecFile
Recs == ndJsonDeserialize(RecFile)

RuleProblems(p) == {"breaks-rule-" \o r : r \in Broken(p)}

Problems(r) ==
  CASE r.t = "parse" -> IF r.accepted THEN RuleProblems(r.proj) ELSE {}
    [] r.t = "produced" -> RuleProblems(r.proj) \cup (IF r.reparse THEN {} ELSE {"own-product-rejected-by-parser"})
    [] r.t = "ser" -> LET v == BundleCrcVerdicts(r.bytes)
                      IN (IF Len(v) < 2 THEN {"serialisation-not-delimitable"} ELSE {})
                         \cup (IF Len(v) >= 1 /\ v[1] = "nocrc" THEN {"primary-block-without-crc"} ELSE {})
                         \cup (IF \E i \in 1..Len(v) : v[i] \in {"bad", "malformed"} THEN {"serialiser-wrote-wrong-crc"} ELSE {})
    [] r.t = "mut" -> LET v == BundleCrcVerdicts(r.bytes)
                          d == Delimit(r.bytes)
                      IN (IF \E i \in 1..Len(v) : v[i] = "bad" THEN {"accepted-despite-crc-mismatch"} ELSE {})
                         \* the consequence the property spells out: in a fully protected bundle no single-bit change is accepted,
                         \* and no burst up to the CRC width that leaves the block boundaries where they were
                         \cup (IF r.kind = "bit" THEN {"accepted-single-bit-change"} ELSE {})
                         \cup (IF r.kind = "burst" /\ Len(d) = Len(r.starts) /\ \A i \in 1..Len(d) : d[i][1] = r.starts[i]
                               THEN {"accepted-burst-with-boundaries-intact"} ELSE {})

Unjudged(r) == r.t = "mut" /\ Delimit(r.bytes) = <<>>

ASSUME \A i \in 1..Len(Recs) :
          LET p == Problems(Recs[i]) IN
          /\ (p = {} \/ PrintT(<<"BAD", ToJson([i |-> i, problems |-> p])>>))
          /\ (~Unjudged(Recs[i]) \/ PrintT(<<"UNJUDGED", ToJson([i |-> i])>>))
ASSUME PrintT(<<"CHECKED", ToJson([n |-> Len(Recs)])>>)

CheckSpec == b = 0 /\ [][FALSE]_b
=============================================================================
