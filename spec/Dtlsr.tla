------------------------------- MODULE Dtlsr -------------------------------
(* DTLSR link-state routing (property C20): the routing table as a function of the known link-state   *)
(* graph, and the rule by which link-state data of a node is replaced.                                  *)
EXTENDS Integers, Sequences, FiniteSets, TLC, Json

CONSTANTS Foreign,   \* foreign nodes that send link-state data (strings)
          Leaves,    \* further nodes that only occur as link targets
          LinkStates, \* states the links of foreign nodes range over (own links always range over all four)
          Mode       \* "graphs": enumerate graphs;  "updates": enumerate update arrival orders

Self == "self"
Dest == Foreign \cup Leaves
States == {"absent", "live", "new", "old"}       \* link absent / up / lost recently / lost long ago
Cost(s) == CASE s = "live" -> 0 [] s = "new" -> 1 [] s = "old" -> 10     \* "old" = ten times "new": sums order like the real costs (1 h vs 10 h in ms)
Inf == 1000

(* a graph: own[n] for n in Foreign (this node's links), link[x][y] for x in Foreign, y in Dest \ {x} *)
W(g, x, y) == IF x = Self THEN (IF y \in Foreign THEN g.own[y] ELSE "absent")
              ELSE IF x \in Foreign /\ y # x /\ y \in Dest THEN g.link[x][y] ELSE "absent"
Vs == {Self} \cup Dest
RECURSIVE Relax(_, _, _)
\* Bellman-Ford from src: d is a function Vs -> cost, k rounds left
Relax(g, d, k) ==
  IF k = 0 THEN d
  ELSE Relax(g, [v \in Vs |-> LET cands == {d[u] + Cost(W(g, u, v)) : u \in {x \in Vs : W(g, x, v) # "absent" /\ d[x] < Inf}}
                              IN IF cands = {} THEN d[v] ELSE LET m == CHOOSE c \in cands : \A c2 \in cands : c <= c2 IN IF m < d[v] THEN m ELSE d[v]], k - 1)
DistFrom(g, src) == Relax(g, [v \in Vs |-> IF v = src THEN 0 ELSE Inf], Cardinality(Vs))
(* next hops this node may use towards d: own neighbours (current or lost) on some minimum-cost path; {} = no route *)
NextHops(g, d) ==
  LET ds == DistFrom(g, Self) IN
  IF ds[d] >= Inf THEN {}
  ELSE {n \in Foreign : g.own[n] # "absent" /\ Cost(g.own[n]) + DistFrom(g, n)[d] = ds[d]}

Graphs == [own : [Foreign -> States], link : [Foreign -> [Dest -> LinkStates]]]
GoodGraph(g) == \A x \in Foreign : g.link[x][x] = "absent"

(* replacement rule: data of a node is replaced only by data of that node with a strictly newer timestamp *)
(* an update: [node, ts, tag]; arrival order = sequence; result: node -> tag of the data kept ("" = none)     *)
RECURSIVE Apply(_, _)
Apply(kept, ups) ==
  IF ups = <<>> THEN kept
  ELSE LET u == Head(ups)
       IN Apply(IF kept[u.node].tag = "" \/ u.ts > kept[u.node].ts THEN [kept EXCEPT ![u.node] = [ts |-> u.ts, tag |-> u.tag]] ELSE kept, Tail(ups))
Updates == {[node |-> n, ts |-> t, tag |-> tg] : n \in Foreign, t \in 1..2, tg \in {"x", "y"}}
UpdateSeqs == UNION {[1..k -> Updates] : k \in 1..3}

(* selection of the peers for a replicated bundle (a DTLSR broadcast, an epidemic bundle) when several convergence layers may lead
   to one node: links = the nodes the active layers lead to (with repetitions), sent = nodes served already, chosen = the nodes
   of the layers selected (in order), after = the nodes noted as served afterwards. Every node not yet served is chosen exactly
   once, no served node again, and the note afterwards names each node once. *)
Count(seq, x) == Cardinality({i \in 1..Len(seq) : seq[i] = x})
Range(seq) == {seq[i] : i \in 1..Len(seq)}
SelectionProblems(r) ==
  {p \in {"node-served-twice", "served-node-chosen-again", "node-not-served", "noted-twice"} :
     CASE p = "node-served-twice" -> \E x \in Range(r.chosen) : Count(r.chosen, x) > 1
       [] p = "served-node-chosen-again" -> Range(r.chosen) \cap Range(r.sent) # {}
       [] p = "node-not-served" -> (Range(r.links) \ Range(r.sent)) \ Range(r.chosen) # {}
       [] p = "noted-twice" -> \E x \in Range(r.after) : Count(r.after, x) > 1}

VARIABLE c
Init == IF Mode = "graphs" THEN c \in {g \in Graphs : GoodGraph(g)} ELSE c \in UpdateSeqs
Next == UNCHANGED c
Spec == Init /\ [][Next]_c

Emit == PrintT(<<"TRACE", IF Mode = "graphs"
                          THEN ToJson([t |-> "graph", own |-> c.own, link |-> c.link, exp |-> [d \in Dest |-> NextHops(c, d)]])
                          ELSE ToJson([t |-> "updates", ups |-> c, exp |-> Apply([n \in Foreign |-> [ts |-> 0, tag |-> ""]], c)])>>)
\* sanity of the reference: a route exists exactly when some next hop exists, and every next hop is a neighbour
RouteIffHop == Mode = "graphs" => \A d \in Dest : (DistFrom(c, Self)[d] < Inf) <=> (NextHops(c, d) # {})
=============================================================================
