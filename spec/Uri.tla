-------------------------------- MODULE Uri --------------------------------
(* Endpoint ID URIs (property C17): grammar of dtn and ipn URIs, a generator of valid ones and near-misses. *)
EXTENDS Valid

Str(s) == s
C(ch) == CASE ch = "d" -> 100 [] ch = "t" -> 116 [] ch = "n" -> 110 [] ch = "i" -> 105 [] ch = "p" -> 112 [] ch = ":" -> 58 [] ch = "/" -> 47
           [] ch = "." -> 46 [] ch = "0" -> 48 [] ch = "1" -> 49 [] ch = "2" -> 50 [] ch = "3" -> 51 [] ch = "a" -> 97 [] ch = "-" -> 45 [] ch = "_" -> 95
           [] ch = "~" -> 126 [] ch = " " -> 32 [] ch = "N" -> 78 [] ch = "x" -> 120 [] ch = "o" -> 111 [] ch = "e" -> 101 [] ch = "," -> 44 [] ch = "h" -> 104
Of(chars) == [i \in 1..Len(chars) |-> C(chars[i])]

Max64 == <<49, 56, 52, 52, 54, 55, 52, 52, 48, 55, 51, 55, 48, 57, 53, 53, 49, 54, 49, 53>>     \* 18446744073709551615
Over64 == <<49, 56, 52, 52, 54, 55, 52, 52, 48, 55, 51, 55, 48, 57, 53, 53, 49, 54, 49, 54>>    \* 18446744073709551616
Digit(c) == c >= 48 /\ c <= 57
RECURSIVE LexLe(_, _, _)
LexLe(x, y, i) == IF i > Len(x) THEN TRUE ELSE IF x[i] < y[i] THEN TRUE ELSE IF x[i] > y[i] THEN FALSE ELSE LexLe(x, y, i + 1)
\* a decimal number in 1 .. 2^64-1 without leading zeros
NumOK(d) == /\ d # <<>> /\ \A i \in 1..Len(d) : Digit(d[i])
            /\ d[1] # 48
            /\ (Len(d) < 20 \/ (Len(d) = 20 /\ LexLe(d, Max64, 1)))
IpnPrefix == Of(<<"i", "p", "n", ":">>)
DotAt(t) == {i \in 1..Len(t) : t[i] = 46}
IpnTextOK(t) ==
  /\ Len(t) > 4 /\ SubSeq(t, 1, 4) = IpnPrefix
  /\ LET r == SubSeq(t, 5, Len(t)) IN
     /\ Cardinality(DotAt(r)) = 1
     /\ LET k == CHOOSE i \in DotAt(r) : TRUE IN NumOK(SubSeq(r, 1, k - 1)) /\ NumOK(SubSeq(r, k + 1, Len(r)))
UriOK(t) == DtnTextOK(t) \/ IpnTextOK(t)

Nodes == {Of(<<"n">>), Of(<<"n", "1">>), Of(<<"a", "-", "1", ".", "x", "_", "N">>), <<>>, Of(<<"n", " ", "1">>), Of(<<"n", "~">>)}
Demuxes == {<<>>, Of(<<"x">>), Of(<<"x", "/", "a">>), Of(<<"~", "x">>), Of(<<" ", "x">>), Of(<<"/">>)}
Nums == {Of(<<"0">>), Of(<<"1">>), Of(<<"2", "3">>), Of(<<"0", "1">>), Max64, Over64, <<>>, Of(<<"1", "x">>), Of(<<"-", "1">>)}
Dtn(prefix, n, d) == prefix \o n \o <<47>> \o d
Candidates ==
     {DtnNoneText, Of(<<"d", "t", "n", ":", "N", "o", "n", "e">>), DtnNoneText \o <<47>>, Of(<<"d", "t", "n", ":">>), <<>>,
      Of(<<"h", "t", "t", "p", ":", "/", "/", "x", "/">>), Of(<<"d", "t", "n", "x", ":", "/", "/", "a", "/">>), Of(<<"d", "t", "n", ":", "/", "/", "n", "1">>)}
  \cup {Dtn(Of(<<"d", "t", "n", ":", "/", "/">>), n, d) : n \in Nodes, d \in Demuxes}
  \cup {Dtn(Of(<<"d", "t", "n", ":", "/">>), n, d) : n \in {Of(<<"n">>)}, d \in Demuxes}
  \cup {IpnPrefix \o n1 \o <<46>> \o n2 : n1 \in Nums, n2 \in Nums}
  \cup {IpnPrefix \o Of(<<"1">>), IpnPrefix \o Of(<<"1", ".", "2", ".", "3">>), IpnPrefix \o Of(<<"1", ",", "2">>), Of(<<"i", "p", "n", "1", ".", "1">>)}

VARIABLE u
UInit == u \in Candidates /\ b = 0
UNext == UNCHANGED <<u, b>>
USpec == UInit /\ [][UNext]_<<u, b>>
UEmit == PrintT(<<"TRACE", ToJson([k |-> "uri", s |-> u, valid |-> UriOK(u)])>>)
=============================================================================
