package stages

// Replay of Session.tla behaviours (Mode = "env") on a real StageHandler with the three stages of a TCPCLv4 client,
// and recording of keep-alive timing of real established sessions for SessionCheck.tla.

import (
	"encoding/json"
	"errors"
	"fmt"
	"os"
	"strings"
	"sync"
	"testing"
	"time"

	"github.com/dtn7/dtn7-go/pkg/bpv7"
	"github.com/dtn7/dtn7-go/pkg/cla/tcpclv4/internal/msgs"
)

type vsMsg struct {
	K     string `json:"k"`
	Ka    int    `json:"ka"`
	Reply bool   `json:"reply"`
}

type vsExp struct {
	Stage string `json:"stage"`
	Ka    int    `json:"ka"`
	Err   string `json:"err"`
	Up    int    `json:"up"`
}

type vsStep struct {
	Act  string  `json:"act"`
	Msg  vsMsg   `json:"msg"`
	Outs []vsMsg `json:"outs"`
	Exp  vsExp   `json:"exp"`
}

type vsCase struct {
	Active bool     `json:"active"`
	Own    int      `json:"own"`
	H      []vsStep `json:"h"`
}

const vsProbeTid = 0xfeedbeef

func vsBuild(m vsMsg) msgs.Message {
	switch m.K {
	case "CH":
		return msgs.NewContactHeader(0)
	case "SI":
		return msgs.NewSessionInitMessage(uint16(m.Ka), uint64(1000+m.Ka), uint64(2000+m.Ka), "dtn://peer/")
	case "KA":
		return msgs.NewKeepaliveMessage()
	case "TERM":
		var f msgs.SessionTerminationFlags
		if m.Reply {
			f = msgs.TerminationReply
		}
		return msgs.NewSessionTerminationMessage(f, msgs.TerminationUnknown)
	default:
		return msgs.NewDataAcknowledgementMessage(0, 7, 3)
	}
}

func vsKind(m msgs.Message) vsMsg {
	switch x := m.(type) {
	case *msgs.ContactHeader:
		return vsMsg{K: "CH"}
	case *msgs.SessionInitMessage:
		return vsMsg{K: "SI", Ka: int(x.KeepaliveInterval)}
	case *msgs.KeepaliveMessage:
		return vsMsg{K: "KA"}
	case *msgs.SessionTerminationMessage:
		return vsMsg{K: "TERM", Reply: x.Flags&msgs.TerminationReply != 0}
	case *msgs.DataAcknowledgementMessage:
		if x.TransferId == vsProbeTid {
			return vsMsg{K: "PROBE"}
		}
		return vsMsg{K: "X"}
	default:
		return vsMsg{K: "X"}
	}
}

func vsErrClass(err error) string {
	switch {
	case err == nil:
		return ""
	case errors.Is(err, StageClose):
		return "close"
	case strings.Contains(err.Error(), "invalid type"):
		return "type"
	case strings.Contains(err.Error(), "unexpected SESS_INIT"):
		return "sessinit"
	default:
		return "other:" + err.Error()
	}
}

func vsReplay(c vsCase, item []byte) (status string) {
	msgIn := make(chan msgs.Message)
	msgOut := make(chan msgs.Message)
	conf := Configuration{ActivePeer: c.Active, ContactFlags: 0, Keepalive: uint16(c.Own), SegmentMru: 1048576, TransferMru: 1 << 30,
		NodeId: bpv7.MustNewEndpointID("dtn://self/")}
	sh := NewStageHandler([]StageSetup{{Stage: &ContactStage{}}, {Stage: &SessInitStage{}}, {Stage: &SessEstablishedStage{}}}, msgIn, msgOut, conf)
	xin, xout := sh.Exchanges()
	closed := false
	defer func() {
		if !closed {
			_ = sh.Close()
		}
		// drain whatever the handler still wants to say, so that its goroutine ends
		to := time.After(2 * time.Second)
		for {
			select {
			case <-msgOut:
			case _, ok := <-sh.Error():
				if !ok {
					return
				}
			case <-to:
				return
			}
		}
	}()
	step := -1
	bad := func(key, desc string) string {
		vhViol("session/"+key, fmt.Sprintf("step %d: %s", step, desc), vhRec{"case": json.RawMessage(item), "step": step})
		return "viol"
	}
	wait := 5 * time.Second
	readOut := func() (vsMsg, bool) {
		select {
		case m := <-msgOut:
			return vsKind(m), true
		case <-time.After(wait):
			return vsMsg{}, false
		}
	}
	same := func(a, b vsMsg) bool { return a.K == b.K && (a.K != "SI" || a.Ka == b.Ka) && (a.K != "TERM" || a.Reply == b.Reply) }
	if c.Active {
		if m, ok := readOut(); !ok || m.K != "CH" {
			return bad("start", fmt.Sprintf("the active side did not open with a contact header (got %+v, %v)", m, ok))
		}
	}
	up := 0
	var gotErr error
	errSeen := false
	for i, s := range c.H {
		step = i
		switch s.Act {
		case "recv":
			select {
			case msgIn <- vsBuild(s.Msg):
			case m := <-msgOut:
				return bad("unexpected-output", fmt.Sprintf("emitted %+v before reading the next message", vsKind(m)))
			case <-time.After(wait):
				return bad("not-reading", fmt.Sprintf("nobody takes the incoming %s although the session is in stage %s", s.Msg.K, "alive"))
			}
		case "close":
			_ = sh.Close()
			closed = true
		case "out":
			xout <- msgs.NewDataAcknowledgementMessage(0, 7, 3)
		}
		for _, want := range s.Outs {
			got, ok := readOut()
			if !ok {
				return bad("missing-output/"+s.Act+"-"+s.Msg.K, fmt.Sprintf("expected %+v to be sent, nothing came", want))
			}
			if !same(got, want) {
				return bad("wrong-output/"+s.Act+"-"+s.Msg.K, fmt.Sprintf("expected %+v to be sent, got %+v", want, got))
			}
		}
		switch s.Exp.Stage {
		case "failed", "closed":
			select {
			case e, ok := <-sh.Error():
				if ok {
					gotErr, errSeen = e, true
				}
			case m := <-msgOut:
				return bad("unexpected-output", fmt.Sprintf("emitted %+v where the session should have ended with error class %q", vsKind(m), s.Exp.Err))
			case <-time.After(wait):
				return bad("no-error", fmt.Sprintf("session should have ended with error class %q, no error was reported", s.Exp.Err))
			}
			if cl := vsErrClass(gotErr); !errSeen || cl != s.Exp.Err {
				return bad("wrong-error", fmt.Sprintf("session ended with %q (%v), expected class %q", cl, gotErr, s.Exp.Err))
			}
		case "est":
			// barrier: a probe through the outgoing exchange comes out only after everything before it was handled
			xout <- msgs.NewDataAcknowledgementMessage(0, vsProbeTid, 0)
			for {
				select {
				case e := <-sh.Error():
					return bad("unexpected-error", fmt.Sprintf("established session ended with %v", e))
				case m := <-msgOut:
					if k := vsKind(m); k.K != "PROBE" {
						return bad("unexpected-output", fmt.Sprintf("emitted %+v, nothing was expected", k))
					}
				case <-time.After(wait):
					return bad("stuck", "established session does not forward an outgoing message any more")
				}
				break
			}
			for drained := false; !drained; {
				select {
				case <-xin:
					up++
				default:
					drained = true
				}
			}
			if up != s.Exp.Up {
				return bad("handed-up", fmt.Sprintf("%d messages handed to the transfer layer, expected %d", up, s.Exp.Up))
			}
			st := sh.state
			if int(st.Keepalive) != s.Exp.Ka {
				return bad("keepalive", fmt.Sprintf("negotiated keep-alive %d, expected %d", st.Keepalive, s.Exp.Ka))
			}
		default:
			// contact / init and still alive: no error may be pending
			select {
			case e := <-sh.Error():
				return bad("unexpected-error", fmt.Sprintf("session in stage %s ended with %v", s.Exp.Stage, e))
			default:
			}
		}
		if s.Exp.Stage == "est" && s.Act == "recv" && s.Msg.K == "SI" {
			st := sh.state
			if st.SegmentMtu != uint64(1000+s.Msg.Ka) || st.TransferMtu != uint64(2000+s.Msg.Ka) || st.PeerNodeId.String() != "dtn://peer/" {
				return bad("negotiated", fmt.Sprintf("segment MTU %d, transfer MTU %d, peer %v: not what the peer declared", st.SegmentMtu, st.TransferMtu, st.PeerNodeId))
			}
		}
	}
	// nothing more may come
	select {
	case m := <-msgOut:
		return bad("unexpected-output", fmt.Sprintf("emitted %+v after the last step", vsKind(m)))
	case <-time.After(15 * time.Millisecond):
	}
	return "ok"
}

func TestVerifSessionReplay(t *testing.T) {
	var items [][]byte
	if err := vhLines(os.Getenv("VERIF_IN"), func(b []byte) { items = append(items, b) }); err != nil {
		t.Fatal(err)
	}
	var mu sync.Mutex
	st := map[string]int{}
	vhParallel(vhEnvInt("VERIF_PAR", 16), items, func(idx int, item []byte) {
		var c vsCase
		if err := json.Unmarshal(item, &c); err != nil {
			vhEmit(vhRec{"k": "infra", "v": err.Error()})
			return
		}
		status := vsReplay(c, item)
		mu.Lock()
		st["histories"]++
		st[status]++
		st["steps"] += len(c.H)
		for _, s := range c.H {
			st["act_"+s.Act]++
			st["end_"+s.Exp.Stage]++
		}
		mu.Unlock()
		if idx%400 == 0 {
			vhSample(vhRec{"history": json.RawMessage(item)})
		}
	})
	for k, n := range st {
		vhStat(k, n)
	}
	vhDone()
}

// ---- keep-alive timing of real established sessions, recorded for SessionCheck.tla --------------------

type vsEvent struct {
	T   int64  `json:"t"` // ms since the session got established
	Dir string `json:"dir"`
	K   string `json:"k"`
}

type vsTiming struct {
	Scenario string    `json:"scenario"`
	Ka       int       `json:"ka"`  // negotiated keep-alive, ms
	Dur      int64     `json:"dur"` // observation time, ms
	Events   []vsEvent `json:"events"`
	EndT     int64     `json:"end_t"` // when the session ended with an error (-1: it did not)
	EndErr   string    `json:"end_err"`
}

// vsTimed establishes a passive session with keep-alive 1 s, then lets the scripted peer send `kind` every `every` ms until `quiet` ms,
// stays silent afterwards; the local side sends a message at the instants in `outs`.
func vsTimed(scenario string, every, quiet int64, outs []int64, dur int64) vsTiming {
	msgIn := make(chan msgs.Message)
	msgOut := make(chan msgs.Message, 64)
	conf := Configuration{ActivePeer: false, Keepalive: 1, SegmentMru: 1000, TransferMru: 1000, NodeId: bpv7.MustNewEndpointID("dtn://self/")}
	sh := NewStageHandler([]StageSetup{{Stage: &ContactStage{}}, {Stage: &SessInitStage{}}, {Stage: &SessEstablishedStage{}}}, msgIn, msgOut, conf)
	_, xout := sh.Exchanges()
	msgIn <- msgs.NewContactHeader(0)
	<-msgOut
	msgIn <- msgs.NewSessionInitMessage(5, 1000, 1000, "dtn://peer/")
	<-msgOut
	t0 := time.Now()
	rec := vsTiming{Scenario: scenario, Ka: 1000, Dur: dur, EndT: -1, Events: []vsEvent{}}
	ms := func() int64 { return int64(time.Since(t0) / time.Millisecond) }
	var mu sync.Mutex
	add := func(dir, k string) {
		mu.Lock()
		rec.Events = append(rec.Events, vsEvent{T: ms(), Dir: dir, K: k})
		mu.Unlock()
	}
	done := make(chan struct{})
	go func() { // scripted peer
		if every <= 0 {
			return
		}
		for t := every; t <= quiet; t += every {
			select {
			case <-done:
				return
			case <-time.After(time.Until(t0.Add(time.Duration(t) * time.Millisecond))):
			}
			select {
			case msgIn <- msgs.NewKeepaliveMessage():
				add("in", "KA")
			case <-done:
				return
			case <-time.After(300 * time.Millisecond):
				return
			}
		}
	}()
	go func() { // local transfer layer
		for _, t := range outs {
			select {
			case <-done:
				return
			case <-time.After(time.Until(t0.Add(time.Duration(t) * time.Millisecond))):
			}
			xout <- msgs.NewDataAcknowledgementMessage(0, 7, 3)
		}
	}()
	end := time.After(time.Duration(dur) * time.Millisecond)
loop:
	for {
		select {
		case m := <-msgOut:
			add("out", vsKind(m).K)
		case e, ok := <-sh.Error():
			if ok {
				rec.EndT, rec.EndErr = ms(), e.Error()
				if strings.HasPrefix(rec.EndErr, "stalled session") {
					rec.EndErr = "stalled"
				}
			}
			break loop
		case <-end:
			break loop
		}
	}
	close(done)
	if rec.EndT < 0 {
		_ = sh.Close()
		to := time.After(time.Second)
	drain:
		for {
			select {
			case <-msgOut:
			case <-sh.Error():
				break drain
			case <-to:
				break drain
			}
		}
	}
	return rec
}

func TestVerifSessionTiming(t *testing.T) {
	f, err := os.Create(os.Getenv("VERIF_REC"))
	if err != nil {
		t.Fatal(err)
	}
	defer f.Close()
	type sc struct {
		name         string
		every, quiet int64
		outs         []int64
		dur          int64
	}
	scs := []sc{
		{"peer-silent", 0, 0, nil, 2600},
		{"peer-alive", 600, 4000, nil, 4000},
		{"peer-alive-then-silent", 500, 1500, nil, 4000},
		{"local-traffic", 600, 4000, []int64{300, 700, 1650, 1700}, 4000},
		{"peer-slow", 950, 4000, nil, 4000},
	}
	reps := vhEnvInt("VERIF_REPS", 2)
	var mu sync.Mutex
	var wg sync.WaitGroup
	n := 0
	for r := 0; r < reps; r++ {
		for _, s := range scs {
			wg.Add(1)
			go func(s sc) {
				defer wg.Done()
				rec := vsTimed(s.name, s.every, s.quiet, s.outs, s.dur)
				b, _ := json.Marshal(rec)
				mu.Lock()
				_, _ = f.Write(append(b, '\n'))
				n++
				mu.Unlock()
			}(s)
		}
	}
	wg.Wait()
	vhStat("sessions", n)
	vhDone()
}
