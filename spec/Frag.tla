------------------------------ MODULE Frag ------------------------------
(* Fragmentation and reassembly as interval algebra (properties C09, C10).                *)
(*  - payload of length N = cells 0..N-1; a fragment is an interval [off, len], len >= 1   *)
(*  - state machine: fragments of one bundle arrive one by one (any multiset, any order);  *)
(*    the receiver (bpv7.ReassembleFragments / storage.BundleItem) must report "complete"  *)
(*    exactly when the received intervals cover 0..N-1, and then return the identity       *)
(*  - the sweep algorithm (sort by offset, running maximum) is specified next to the       *)
(*    set-based definition and TLC checks that they agree in every reachable state         *)
(*  - operators judging recorded results of the real Fragment() calls (FragRecOK)          *)
EXTENDS Integers, Sequences, FiniteSets, TLC, Json

CONSTANTS N,         \* payload length
          K,         \* max number of received fragments
          EmitMode   \* "none" | "final" | "edge"

Interval == {[off |-> o, len |-> l] : o \in 0..(N-1), l \in 1..N}
Valid(f) == f.off + f.len <= N
Fragments == {f \in Interval : Valid(f)}
Cells(f) == f.off..(f.off + f.len - 1)
End(f) == f.off + f.len
Range(s) == {s[i] : i \in 1..Len(s)}

(* definition *)
Covers(S) == UNION {Cells(f) : f \in S} = 0..(N-1)

(* algorithm: what a correct implementation computes *)
ByOffset(s) == SortSeq(s, LAMBDA a, b : a.off < b.off)
Max(a, b) == IF a > b THEN a ELSE b

RECURSIVE SweepFrom(_, _, _)
\* returns -1 on a gap, else the running maximum end after the sweep
SweepFrom(s, i, last) ==
  IF i > Len(s) THEN last
  ELSE IF s[i].off > last THEN -1
  ELSE SweepFrom(s, i + 1, Max(last, End(s[i])))

SweepCovers(s) == Len(s) > 0 /\ SweepFrom(ByOffset(s), 1, 0) = N

RECURSIVE MergeFrom(_, _, _, _)
\* payload assembled by the sweep: cell values are their own absolute index
MergeFrom(s, i, last, acc) ==
  IF i > Len(s) THEN acc
  ELSE IF End(s[i]) <= last THEN MergeFrom(s, i + 1, last, acc)          \* completely covered: skip
  ELSE MergeFrom(s, i + 1, End(s[i]), acc \o [k \in 1..(End(s[i]) - last) |-> last + k - 1])

SweepMerge(s) == MergeFrom(ByOffset(s), 1, 0, <<>>)
Identity == [k \in 1..N |-> k - 1]

-----------------------------------------------------------------------------
VARIABLES got, hist
vars == <<got, hist>>

Init == got = <<>> /\ hist = <<>>

Exp(s) == [complete |-> Covers(Range(s))]

Receive(f) ==
  /\ Len(got) < K
  /\ got' = Append(got, f)
  /\ hist' = IF EmitMode = "none" THEN hist
             ELSE Append(hist, [act |-> "Receive", off |-> f.off, len |-> f.len, exp |-> Exp(got')])
  /\ (EmitMode = "edge") => PrintT(<<"TRACE", ToJson([n |-> N, h |-> hist'])>>)

Next == \E f \in Fragments : Receive(f)
Spec == Init /\ [][Next]_vars

AlgoMatchesDefinition ==
  /\ SweepCovers(got) <=> (Len(got) > 0 /\ Covers(Range(got)))
  /\ Covers(Range(got)) => SweepMerge(got) = Identity

\* completeness is monotone: more fragments never make a complete set incomplete
Monotone == [][Covers(Range(got)) => Covers(Range(got'))]_vars

Emit == (EmitMode = "final" /\ Len(got) = K) => PrintT(<<"TRACE", ToJson([n |-> N, h |-> hist])>>)

-----------------------------------------------------------------------------
(* Judging a recorded result of Bundle.Fragment(mtu) of the real code (C09, C10 second sentence).   *)
(* rec: [plen, poff, ptotal, isfrag, mtu, insize, mnf, err, same, empty,                            *)
(*       frags: Seq([off, len, total, size, hdrok, blocksok, valid, isfrag]), reasm_ok, reasm_tried] *)
(* poff/ptotal: offset and total length of the input if it is itself a fragment (else 0 / plen).     *)

Contiguous(fr, start, stop) ==
  /\ Len(fr) >= 1
  /\ fr[1].off = start
  /\ \A i \in 1..(Len(fr) - 1) : fr[i + 1].off = fr[i].off + fr[i].len
  /\ fr[Len(fr)].off + fr[Len(fr)].len = stop
  /\ \A i \in 1..Len(fr) : fr[i].len >= 1

FragRecProblems(r) ==
  LET fr == r.frags IN
  {p \in {"mnf-not-refused", "empty-list", "fitting-not-returned-as-itself", "fragment-larger-than-mtu",
          "offsets-do-not-partition", "wrong-total-length", "header-fields-differ", "extension-blocks-wrong",
          "fragment-invalid", "not-marked-fragment", "reassembly-differs", "payload-bytes-misplaced"} :
     CASE p = "mnf-not-refused"   -> r.mnf /\ ~r.err
       [] p = "empty-list"        -> ~r.err /\ Len(fr) = 0
       [] p = "fitting-not-returned-as-itself" -> ~r.mnf /\ r.insize <= r.mtu /\ (r.err \/ ~r.same)
       [] p = "fragment-larger-than-mtu" -> ~r.err /\ \E i \in 1..Len(fr) : fr[i].size > r.mtu
       [] p = "offsets-do-not-partition" -> ~r.err /\ ~r.same /\ Len(fr) > 0 /\ ~Contiguous(fr, r.poff, r.poff + r.plen)
       [] p = "wrong-total-length" -> ~r.err /\ ~r.same /\ \E i \in 1..Len(fr) : fr[i].total # r.ptotal
       [] p = "header-fields-differ" -> ~r.err /\ ~r.same /\ \E i \in 1..Len(fr) : ~fr[i].hdrok
       [] p = "extension-blocks-wrong" -> ~r.err /\ ~r.same /\ \E i \in 1..Len(fr) : ~fr[i].blocksok
       [] p = "fragment-invalid"  -> ~r.err /\ \E i \in 1..Len(fr) : ~fr[i].valid
       [] p = "not-marked-fragment" -> ~r.err /\ ~r.same /\ \E i \in 1..Len(fr) : ~fr[i].isfrag
       [] p = "reassembly-differs" -> ~r.err /\ r.reasm_tried /\ ~r.reasm_ok
       [] p = "payload-bytes-misplaced" -> ~r.err /\ ~r.same /\ \E i \in 1..Len(fr) : ~fr[i].dataok}

(* Judging a recorded reassembly attempt of the real code over real fragments (C10).               *)
(* rec: [total, frags: Seq([off, len]), reassemblable, reasm_err, payload_ok, blocks_ok, store_complete] *)
ReasmRecProblems(r) ==
  LET cov == UNION {(r.frags[i].off)..(r.frags[i].off + r.frags[i].len - 1) : i \in 1..Len(r.frags)} = 0..(r.total - 1)
  IN {p \in {"complete-set-rejected", "incomplete-set-accepted", "wrong-payload", "wrong-blocks",
             "store-completeness-wrong", "test-and-reassembly-disagree"} :
     CASE p = "complete-set-rejected"   -> cov /\ (r.reasm_err \/ ~r.reassemblable)
       [] p = "incomplete-set-accepted" -> ~cov /\ (~r.reasm_err \/ r.reassemblable)
       [] p = "wrong-payload"           -> ~r.reasm_err /\ ~r.payload_ok
       [] p = "wrong-blocks"            -> ~r.reasm_err /\ ~r.blocks_ok
       [] p = "store-completeness-wrong" -> r.store_tried /\ (r.store_complete # cov)
       [] p = "test-and-reassembly-disagree" -> r.reassemblable = r.reasm_err}
=============================================================================
