------------------------------ MODULE Discovery ------------------------------
(* pkg/discovery/manager.go: what a received discovery packet does to the node (growth beyond the listed    *)
(* properties; C17 covers the announcement codec, C16 the CLA manager that takes the registrations).        *)
(* One packet (Notify) carries a CBOR array of announcements. The code parses the whole array first; if any  *)
(* part of it does not parse, nothing of the packet is used. Every announcement is then handled on its own:  *)
(* one for this node itself (any service of the node) is dropped, an MTCP or TCPCLv4 one builds a             *)
(* non-permanent client for <sender address>:<announced port> and hands it to the register function, any     *)
(* other known CLA type (TCPCLv4 over WebSocket, BBC) is dropped on its own. A CLA type number the node does   *)
(* not know at all makes the announcement, and with it the whole packet, unparseable ("unknown").             *)
(* A packet received over IPv6 has its sender address put in brackets.            *)
EXTENDS Integers, Sequences, FiniteSets, TLC, Json

CONSTANTS Self,        \* node name of this node
          Eids,        \* endpoints that may be announced: records [node, svc]
          Types,       \* subset of {"mtcp", "tcpcl", "ws", "bbc", "unknown"}
          Hosts, Ports, MaxAnn, MaxSteps, EmitMode

VARIABLES regs,     \* registrations handed over so far: a bag as a function record -> count
          offered,  \* number of announcements received in well-formed packets
          steps, hist
vars == <<regs, offered, steps, hist>>

Ann == [t : Types, eid : Eids, port : Ports]
AnnSeqs == UNION {[1..n -> Ann] : n \in 0..MaxAnn}

(* the client built for one announcement, as a sequence of length 0 (no registration) or 1 *)
Client(a, host, v6) ==
  IF a.eid.node = Self \/ a.t \notin {"mtcp", "tcpcl"} THEN <<>>
  ELSE <<[t |-> a.t, host |-> host, v6 |-> v6, port |-> a.port, permanent |-> FALSE,
        \* an MTCP client is told its peer's endpoint as announced; a TCPCL client learns it in the session and starts with this node's ID as its own
        peer |-> IF a.t = "mtcp" THEN a.eid ELSE [node |-> "none", svc |-> ""],
        own  |-> IF a.t = "tcpcl" THEN Self ELSE ""]>>

Clients(anns, host, v6) ==
  LET F[i \in 0..Len(anns)] == IF i = 0 THEN <<>>
        ELSE F[i - 1] \o Client(anns[i], host, v6)
  IN F[Len(anns)]

BagAdd(b, s) ==
  LET new == {s[i] : i \in 1..Len(s)} IN
  [c \in DOMAIN b \cup new |-> (IF c \in DOMAIN b THEN b[c] ELSE 0) + Cardinality({i \in 1..Len(s) : s[i] = c})]

Init == regs = <<>> /\ offered = 0 /\ steps = 0 /\ hist = <<>>

Log(rec) ==
  /\ steps' = steps + 1
  /\ hist' = IF EmitMode = "none" THEN hist ELSE Append(hist, rec)
  /\ (EmitMode = "edge") => PrintT(<<"TRACE", ToJson(hist')>>)

(* cut: the packet is damaged (its last byte is missing); a packet that is cut or has an announcement of an unknown CLA type
   does not parse as a whole, the well-formed announcements before the bad one are not used either *)
Notify(host, v6, anns, cut) ==
  /\ steps < MaxSteps
  /\ LET bad == cut \/ \E i \in 1..Len(anns) : anns[i].t = "unknown"
         cs == IF bad THEN <<>> ELSE Clients(anns, host, v6) IN
     /\ regs' = BagAdd(regs, cs)
     /\ offered' = offered + (IF bad THEN 0 ELSE Len(anns))
     /\ Log([host |-> host, v6 |-> v6, anns |-> anns, cut |-> cut, regs |-> cs])

Next == \E host \in Hosts, v6 \in BOOLEAN, anns \in AnnSeqs, cut \in BOOLEAN : Notify(host, v6, anns, cut)
Spec == Init /\ [][Next]_vars

(* ---- what the rest of the node relies on ---- *)
Total == LET D == DOMAIN regs IN
         LET S[X \in SUBSET D] == IF X = {} THEN 0 ELSE LET c == CHOOSE c \in X : TRUE IN regs[c] + S[X \ {c}] IN S[D]
(* the node never opens a link to itself, whatever service of it is announced *)
NeverSelf == \A c \in DOMAIN regs : c.peer.node # Self
(* a discovered link is never permanent: the CLA manager may drop it when it fails, the next announcement brings it back *)
NeverPermanent == \A c \in DOMAIN regs : ~c.permanent
(* nothing is invented: at most one registration per announcement of a well-formed packet *)
NothingInvented == Total <= offered
(* an unsupported CLA type never reaches the CLA manager *)
OnlySupported == \A c \in DOMAIN regs : c.t \in {"mtcp", "tcpcl"}

SView == <<regs, offered, steps>>
Emit == (EmitMode = "final" /\ steps = MaxSteps) => PrintT(<<"TRACE", ToJson(hist)>>)
=============================================================================
