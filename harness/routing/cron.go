package routing

// Replay of Cron.tla behaviours on a real Cron whose firing rounds are driven by the harness (fire is called with the
// specification's clock; the one-second ticker loop is only started for the Stop action).

import (
	"encoding/json"
	"fmt"
	"os"
	"sort"
	"strings"
	"sync"
	"testing"
	"time"
)

type vkStep struct {
	Act   string   `json:"act"`
	Job   string   `json:"job"`
	Iv    int      `json:"iv"`
	Res   string   `json:"res"`
	Fired []string `json:"fired"`
}

func vkReplay(h []vkStep, item []byte) string {
	cron := &Cron{jobs: make(map[string]*cronjob), stopSyn: make(chan struct{}), stopAck: make(chan struct{})}
	var mu sync.Mutex
	ran := map[string]int{}
	total := 0
	base := time.Now()
	now := 0
	bad := func(i int, key, desc string) string {
		vhViol("cron/"+key, fmt.Sprintf("step %d (%s %s): %s", i, h[i].Act, h[i].Job, desc), vhRec{"history": json.RawMessage(item), "step": i})
		return "viol"
	}
	for i, s := range h {
		switch s.Act {
		case "register":
			j := s.Job
			before := time.Now()
			err := cron.Register(j, func() { mu.Lock(); ran[j]++; total++; mu.Unlock() }, time.Duration(s.Iv)*time.Second)
			res := "ok"
			if err != nil {
				switch {
				case strings.Contains(err.Error(), "already registered"):
					res = "exists"
				case strings.Contains(err.Error(), "shorter than a second"):
					res = "short"
				default:
					res = "other:" + err.Error()
				}
			}
			if res != s.Res {
				return bad(i, "register-result", fmt.Sprintf("Register(interval %d s) gave %q, expected %q", s.Iv, res, s.Res))
			}
			if res == "ok" {
				// the job's clock is the wall clock at registration: move it onto the specification's clock
				cron.mutex.Lock()
				job := cron.jobs[j]
				if job == nil || job.nextEvent.Before(before.Add(job.interval)) || job.nextEvent.After(time.Now().Add(job.interval)) {
					cron.mutex.Unlock()
					return bad(i, "first-due-time", "first due time is not registration time + interval")
				}
				job.nextEvent = base.Add(time.Duration(now+s.Iv) * time.Second)
				cron.mutex.Unlock()
			}
		case "unregister":
			cron.Unregister(s.Job)
		case "tick":
			now += s.Iv
			mu.Lock()
			before := map[string]int{}
			for k, v := range ran {
				before[k] = v
			}
			t0 := total
			mu.Unlock()
			cron.fire(base.Add(time.Duration(now) * time.Second))
			// tasks run in goroutines of their own: wait for the expected number, then see that no more come
			deadline := time.Now().Add(3 * time.Second)
			for {
				mu.Lock()
				n := total - t0
				mu.Unlock()
				if n >= len(s.Fired) || time.Now().After(deadline) {
					break
				}
				time.Sleep(50 * time.Microsecond)
			}
			time.Sleep(300 * time.Microsecond)
			mu.Lock()
			var got []string
			for k, v := range ran {
				for x := before[k]; x < v; x++ {
					got = append(got, k)
				}
			}
			mu.Unlock()
			sort.Strings(got)
			want := append([]string{}, s.Fired...)
			sort.Strings(want)
			if strings.Join(got, ",") != strings.Join(want, ",") {
				return bad(i, "fired", fmt.Sprintf("at second %d jobs {%s} ran, expected {%s}", now, strings.Join(got, ","), strings.Join(want, ",")))
			}
		case "stop":
			go cron.loop()
			done := make(chan struct{})
			go func() { cron.Stop(); close(done) }()
			select {
			case <-done:
			case <-time.After(3 * time.Second):
				return bad(i, "stop", "Stop does not return")
			}
		}
	}
	return "ok"
}

func TestVerifCronReplay(t *testing.T) {
	var items [][]byte
	if err := vhLines(os.Getenv("VERIF_IN"), func(b []byte) { items = append(items, b) }); err != nil {
		t.Fatal(err)
	}
	var mu sync.Mutex
	st := map[string]int{}
	vhParallel(vhEnvInt("VERIF_PAR", 16), items, func(idx int, item []byte) {
		var h []vkStep
		if err := json.Unmarshal(item, &h); err != nil {
			vhEmit(vhRec{"k": "infra", "v": err.Error()})
			return
		}
		status := vkReplay(h, item)
		mu.Lock()
		st["histories"]++
		st[status]++
		for _, s := range h {
			st["act_"+s.Act]++
			st["fired"] += len(s.Fired)
			if s.Res != "ok" {
				st["refused_"+s.Res]++
			}
		}
		mu.Unlock()
		if idx%500 == 0 {
			vhSample(vhRec{"history": json.RawMessage(item)})
		}
	})
	for k, n := range st {
		vhStat(k, n)
	}
	vhDone()
}
