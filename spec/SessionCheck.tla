---------------------------- MODULE SessionCheck ----------------------------
(* Keep-alive behaviour of an established TCPCLv4 session (SessEstablishedStage), judged on timestamps recorded *)
(* from real sessions (harness/stages/session.go, TestVerifSessionTiming). Times in ms since establishment.     *)
(*                                                                                                              *)
(* The implementation: a wind-up ticker first fires after K/2; at a tick the session fails as "stalled" when    *)
(* nothing was received for more than K; a KEEPALIVE is sent when less than K/8 is left until K after the last  *)
(* transmission, otherwise the next tick comes after half the remaining time. What a user relies on:            *)
(*   Sends:    while the session lives it never stays silent for longer than K                                  *)
(*   NotEarly: it is not declared stalled before the peer was silent for K                                      *)
(*   Detects:  a peer silent for 1.5 K is noticed (ticks are at most K/2 apart)                                 *)
(*   OnlyStall: nothing else ends the session during the observation                                            *)
EXTENDS Integers, Sequences, TLC, Json
CONSTANTS RecFile, Slack      \* Slack: scheduling tolerance in ms
Recs == ndJsonDeserialize(RecFile)

Times(r, dir) == [i \in 1..Len(SelectSeq(r.events, LAMBDA e : e.dir = dir)) |-> SelectSeq(r.events, LAMBDA e : e.dir = dir)[i].t]
EndOf(r) == IF r.end_t >= 0 THEN r.end_t ELSE r.dur
LastBefore(ts, t) == LET s == {ts[i] : i \in 1..Len(ts)} \cap 0..t IN IF s = {} THEN 0 ELSE CHOOSE x \in s : \A y \in s : y <= x
Problems(r) ==
  LET outs == <<0>> \o Times(r, "out") \o <<EndOf(r)>>
      ins == Times(r, "in")
      lastIn == LastBefore(ins, EndOf(r))
  IN (IF \E i \in 1..(Len(outs) - 1) : outs[i + 1] <= EndOf(r) /\ outs[i + 1] - outs[i] > r.ka + Slack THEN {"silent-longer-than-keepalive"} ELSE {})
     \cup (IF r.end_err = "stalled" /\ r.end_t - lastIn < r.ka - 20 THEN {"stalled-too-early"} ELSE {})
     \cup (IF r.end_err # "stalled" /\ r.dur - lastIn > (3 * r.ka) \div 2 + Slack THEN {"silent-peer-not-noticed"} ELSE {})
     \cup (IF r.end_err = "stalled" /\ r.end_t - lastIn > (3 * r.ka) \div 2 + Slack THEN {"silent-peer-noticed-late"} ELSE {})
     \cup (IF r.end_err \notin {"", "stalled"} THEN {"ended-for-another-reason"} ELSE {})

ASSUME \A i \in 1..Len(Recs) : LET p == Problems(Recs[i]) IN p = {} \/ PrintT(<<"BAD", ToJson([i |-> i, problems |-> p])>>)
ASSUME PrintT(<<"CHECKED", ToJson([n |-> Len(Recs)])>>)
VARIABLE x
CheckSpec == x = 0 /\ [][FALSE]_x
=============================================================================
