"""C18 Spray-and-wait never exceeds, and never leaks, its copy budget."""
from props.corecommon import *


def run(tier):
    chk = Check("C18", tier, "model_checking")
    quick = tier == "quick"
    chk.assumptions = ["as C05; additionally the algorithm's own copy counter is read (in-package) after every event and compared with Core.tla, and "
                       "the BinarySprayBlock of every transmitted copy is compared with floor(held/2)",
                       "where the algorithm may choose among several eligible peers (map order), any admissible choice is accepted and the behaviour "
                       "continues only if it coincides with the one TLC chose",
                       "two transmissions failing at the same moment: several failing peers selected in one forward() (vanilla spray)"]
    chk.cov["rule"] = ("Core.tla with Algo in {spray, binary_spray}, budgets 1..4 (thorough: ..8 by simulation), 3 peers: TLC checks "
                       "0 <= copies <= budget and copies + holders = budget (vanilla) in every state; behaviours replayed on the real Core.")
    P = ["p1", "p2", "p3"]
    fam = dict(peers=P, enabled=BASIC,
               cat={"b1": attr("app", "far"), "b2": attr("p1", "p2", prev="p1", copies=5), "b3": attr("p2", "far", prev="p2", copies=1)})
    # bundles that arrive with k copies and can be sprayed to two further peers (second transmission after a success / a failure)
    famk = dict(peers=P, enabled=["Receive", "PeerUp", "SetFail", "RetryTick"],
                cat={"k4": attr("p1", "far", prev="p1", copies=4), "k7": attr("p1", "far", prev="p1", copies=7)})
    nsends = lambda h: sum(len(st["exp"]["sends"]) for st in h)
    plans = [dict(name="received-k", fam=famk, algo="binary_spray", budget=3, steps=5 if quick else 6, cap=260 if quick else None, mc=not quick, prefer=nsends),
             dict(name="received-k", fam=famk, algo="spray", budget=3, steps=4, cap=80 if quick else None, mc=False, prefer=nsends)]
    for algo in ("spray", "binary_spray"):
        for L in ([1, 2, 4] if quick else [1, 2, 3, 4, 8]):
            plans.append(dict(name="budget", fam=fam, algo=algo, budget=L, steps=4 if quick else 5, sim=(25, 12) if quick else (800, 20),
                              cap=130 if quick else None, mc=not quick or L == 4))
    # the sensor-mule wrapper around spray-and-wait: a copy the wrapped algorithm sets aside for a sensor node is not transmitted and
    # has to come back (the wrapper reports the transmission as failed), whatever the wrapped algorithm picks
    PS = ["p1", "s1", "s2"]
    fams = dict(peers=PS, enabled=BASIC,
                cat={"m1": attr("app", "far"), "m2": attr("app", "s1"), "m3": attr("p1", "far", prev="p1")})
    for L in ([2, 4] if quick else [2, 3, 4, 8]):
        plans.append(dict(name="mule", fam=fams, algo="mule_spray", budget=L, steps=4 if quick else 5, sim=(25, 12) if quick else (600, 18),
                          cap=130 if quick else None, mc=not quick or L == 4))
        if L == 4 or not quick:
            plans.append(dict(name="mule", fam=fams, algo="mule_binary_spray", budget=L, steps=4 if quick else 5, sim=(25, 12) if quick else (600, 18),
                              cap=100 if quick else None, mc=not quick))
    total, st = run_families(chk, "C18", plans, tier)
    own_violations(chk, "C18")
    chk.cov["traces_validated_against_impl"] = total
    chk.cov["evaluations"] = total
    chk.cov["distinct_nontrivial"] = total
    return chk.finish()
