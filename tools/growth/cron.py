"""Growth beyond the listed properties: the Core's cron (Cron.tla)."""
import json
from vlib import *

FILES = ["common/vh.go", "routing/cron.go"]


def cfg(steps, emit, maxdt, view=True):
    t = ('SPECIFICATION Spec\nCONSTANTS\n Jobs <- MCJobs\n Intervals <- MCIntervals\n MaxDt = %d\n MaxSteps = %d\n EmitMode = "%s"\n'
         'INVARIANTS NotTooOften NeverForgotten OnGrid Emit\n' % (maxdt, steps, emit))
    if view:
        t += "VIEW SView\n"
    return t


def run(tier):
    chk = Check("G-cron", tier, "model_checking", growth=True)
    quick = tier == "quick"
    chk.assumptions = ["firing rounds are driven by the harness calling Cron.fire with the specification's clock; the one-second ticker loop itself "
                       "(time.Ticker) is trusted and only started for Stop",
                       "the first due time is checked against the wall clock at registration, then moved onto the specification's clock"]
    chk.cov["rule"] = ("Cron.tla is model-checked (never early or too often, never forgotten, due times stay on the grid); one behaviour per edge of the "
                       "reduced graph plus random deep ones are replayed on a real Cron, the set of jobs run per round and every Register result compared.")
    m = {"MCCron.tla": '---- MODULE MCCron ----\nEXTENDS Cron\nMCJobs == {"a", "b"}\nMCIntervals == {0, 1, 2, 3}\n====\n'}
    steps = 5 if quick else 6
    res = tlc_parallel([
        ("mc", dict(module="MCCron", cfg_text=cfg(steps + 2, "none", 3), name="cron-mc", extra_files=m, deadlock=False, workers=4, timeout=1500)),
        ("gen", dict(module="MCCron", cfg_text=cfg(steps, "edge", 3), name="cron-gen", extra_files=m, deadlock=False, workers=4, timeout=1500)),
        ("sim", dict(module="MCCron", cfg_text=cfg(14, "final", 3, view=False), name="cron-sim", extra_files=m, deadlock=False, workers=1,
                     simulate=200 if quick else 5000, depth=20, tseed=seed() * 7 + 1)),
    ], par=3)
    chk.add_tlc("exhaustive", need_ok(res["mc"], "Cron exhaustive"))
    g = need_ok(res["gen"], "Cron generator")
    s = need_ok(res["sim"], "Cron simulate")
    chk.add_tlc("edge behaviours", g, {"random_deep": len(s.traces)})
    seen, hs = set(), []
    for h in g.traces + s.traces:
        k = json.dumps(h, sort_keys=True)
        if k not in seen:
            seen.add(k)
            hs.append(h)
    cap = 6000 if quick else 60000
    if len(hs) > cap:
        import random
        random.Random(seed()).shuffle(hs)
        hs = hs[:cap]
    inp = write_input("cron.ndjson", hs)
    st = run_harness(chk, "cron replay", "pkg/routing", FILES, "TestVerifCronReplay", env={"VERIF_IN": inp}, timeout=1500)
    if st.get("histories") != len(hs) or st.get("fired", 0) < 50 or st.get("refused_exists", 0) == 0 or st.get("refused_short", 0) == 0 or st.get("act_stop", 0) == 0:
        raise InfraError("vacuous or incomplete: %s" % st)
    chk.cov["traces_validated_against_impl"] = len(hs)
    chk.cov["evaluations"] = len(hs)
    chk.cov["distinct_nontrivial"] = len(hs)
    return chk.finish()
