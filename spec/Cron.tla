-------------------------------- MODULE Cron --------------------------------
(* pkg/routing/cron.go: named periodic jobs driven by a one-second ticker (growth beyond the listed    *)
(* properties; the Core's retry of pending bundles, the store's cleaner and the routing algorithms'     *)
(* housekeeping all hang on it).                                                                        *)
(* Time is in whole seconds since the Cron was created. A tick may come late or be dropped (a Go ticker  *)
(* drops ticks for slow receivers): Tick(dt) advances the clock by dt >= 1 and runs one firing round.    *)
EXTENDS Integers, Sequences, FiniteSets, TLC, Json

CONSTANTS Jobs, Intervals, MaxDt, MaxSteps, EmitMode

VARIABLES reg,     \* [Jobs -> [on, iv, next, since, count]]: registered?, interval, next due time, registration time, firings so far
          now, stopped, steps, hist
vars == <<reg, now, stopped, steps, hist>>

Off == [on |-> FALSE, iv |-> 0, next |-> 0, since |-> 0, count |-> 0]
Init == reg = [j \in Jobs |-> Off] /\ now = 0 /\ stopped = FALSE /\ steps = 0 /\ hist = <<>>

Log(rec) ==
  /\ steps' = steps + 1
  /\ hist' = IF EmitMode = "none" THEN hist ELSE Append(hist, rec)
  /\ (EmitMode = "edge") => PrintT(<<"TRACE", ToJson(hist')>>)

Go == steps < MaxSteps /\ ~stopped

Register(j, iv) ==
  /\ Go
  /\ LET res == IF reg[j].on THEN "exists" ELSE IF iv < 1 THEN "short" ELSE "ok" IN
     /\ reg' = IF res = "ok" THEN [reg EXCEPT ![j] = [on |-> TRUE, iv |-> iv, next |-> now + iv, since |-> now, count |-> 0]] ELSE reg
     /\ Log([act |-> "register", job |-> j, iv |-> iv, res |-> res, fired |-> {}])
  /\ UNCHANGED <<now, stopped>>

Unregister(j) ==
  /\ Go
  /\ reg' = [reg EXCEPT ![j] = Off]
  /\ Log([act |-> "unregister", job |-> j, iv |-> 0, res |-> "ok", fired |-> {}])
  /\ UNCHANGED <<now, stopped>>

Due(t) == {j \in Jobs : reg[j].on /\ reg[j].next <= t}
Tick(dt) ==
  /\ Go
  /\ now' = now + dt
  /\ reg' = [j \in Jobs |-> IF j \in Due(now + dt) THEN [reg[j] EXCEPT !.next = @ + reg[j].iv, !.count = @ + 1] ELSE reg[j]]
  /\ Log([act |-> "tick", job |-> "", iv |-> dt, res |-> "ok", fired |-> Due(now + dt)])
  /\ UNCHANGED stopped

Stop ==
  /\ Go
  /\ stopped' = TRUE
  /\ Log([act |-> "stop", job |-> "", iv |-> 0, res |-> "ok", fired |-> {}])
  /\ UNCHANGED <<reg, now>>

Next ==
  \/ \E j \in Jobs, iv \in Intervals : Register(j, iv)
  \/ \E j \in Jobs : Unregister(j)
  \/ \E dt \in 1..MaxDt : Tick(dt)
  \/ Stop
Spec == Init /\ [][Next]_vars

(* ---- what users of the cron rely on ---- *)
(* never more firings than full intervals have passed since the registration: no job runs early or too often *)
NotTooOften == \A j \in Jobs : reg[j].on => reg[j].count * reg[j].iv <= now - reg[j].since
(* a job whose interval is at least the longest gap between two rounds is never more than one interval behind. (A job with a
   shorter interval falls behind by one firing per dropped tick and catches up with one firing per round later: TLC shows the
   unbounded lag for interval 1 s and rounds 3 s apart. One firing per round is what the code does; nothing is ever skipped.) *)
NeverForgotten == \A j \in Jobs : (reg[j].on /\ reg[j].iv >= MaxDt) => reg[j].next > now - reg[j].iv
(* the due time of a registered job stays on the grid registration time + k * interval *)
OnGrid == \A j \in Jobs : reg[j].on => (reg[j].next - reg[j].since) % reg[j].iv = 0 /\ reg[j].next = reg[j].since + (reg[j].count + 1) * reg[j].iv
SView == <<reg, now, stopped, steps>>
Emit == (EmitMode = "final" /\ steps = MaxSteps) => PrintT(<<"TRACE", ToJson(hist)>>)
=============================================================================
