"""C06 Forwarded bundles are faithful copies and respect hop limit and lifetime."""
from props.corecommon import *


def run(tier):
    chk = Check("C06", tier, "model_checking")
    quick = tier == "quick"
    chk.assumptions = ["every bundle handed to a mock convergence layer is serialised there, parsed, and compared block by block with the bytes the node "
                       "accepted: primary block and payload identical (sequence number of locally submitted bundles excepted, see C14), hop count "
                       "+1 on every attempt, previous node = this node, bundle age grown by at most the measured residence time in ms, "
                       "unsupported blocks flagged for removal absent, every other block byte-identical, extra blocks only if owned by the algorithm",
                       "residence times: milliseconds for most behaviours, about 1.4 s after the Advance action (real sleep)",
                       "hop count x limit: boundary pairs (3/4, 4/4, 254/255, 255/255) in quick, the full 0..255 square by the bpv7-level sweep in thorough"]
    chk.cov["rule"] = ("Core.tla behaviours over bundles with/without hop-count, bundle-age, previous-node and unsupported blocks, zero and "
                       "non-zero creation times, short lifetimes, first transmission and retries, per routing algorithm; the guard outcomes "
                       "(never transmitted, dropped from the store) are compared with the spec after every event.")
    P = ["p1", "p2"]
    ev = ["Receive", "PeerUp", "SetFail", "RetryTick"]
    hopfam = dict(peers=P, enabled=ev, cat={"h1": attr("p1", "far", prev="p1", hop=(4, 3)), "h2": attr("p1", "far", hop=(4, 4)),
                                            "h4": attr("p1", "p2", hop=(255, 255)), "h3": attr("p1", "far", hop=(255, 254))})
    blkfam = dict(peers=P, enabled=ev + ["Restart"], cat={"a1": attr("p1", "far", prev="p1", clockless=True),
                                                          "u1": attr("p1", "far", hasunk=True, unkf=("remove",)),
                                                          "u2": attr("p1", "p2", hasunk=True, unkf=(), copies=3),
                                                          "o1": attr("p1", "far", clockless=True, hop=(9, 1), desc=True),
                                                          "u3": attr("p1", "far", prev="p1", hasunk=True, unkf=("remove",), unkmore=2)})
    lifefam = dict(peers=P, enabled=ev + ["Advance", "CleanTick"], cat={"s1": attr("p1", "far", life="short"),
                                                                        "a2": attr("p1", "far", prev="p1", clockless=True, hop=(9, 1))})
    # expiry by age (clock-less source), and a creation time AND an age block: there the creation time decides
    lifefam2 = dict(peers=P, enabled=ev + ["Advance", "CleanTick"], cat={"a3": attr("p1", "far", clockless=True, life="short"),
                                                                         "a4": attr("p1", "far", life="short", age=7)})
    # one bundle of a clock-less source: the age block must grow by the whole time spent here on every attempt, also after an
    # attempt that failed long after the reception (random deep behaviours; those with several attempts after Advance first)
    agefam = dict(peers=P, enabled=["Receive", "PeerUp", "SetFail", "RetryTick", "Advance"], cat={"g1": attr("p1", "far", clockless=True, hop=(9, 1))})

    def late_attempts(h):
        acts = [st["act"] for st in h]
        if "Advance" not in acts:
            return 0
        return sum(1 for st in h[acts.index("Advance") + 1:] if st["exp"]["sends"])
    plans = []
    for a in (["epidemic", "binary_spray", "dtlsr"] if quick else ALGOS):
        plans.append(dict(name="hop", fam=hopfam, algo=a, budget=3, steps=4 if quick else 5, cap=110 if quick else None, mc=not quick))
        plans.append(dict(name="blocks", fam=blkfam, algo=a, budget=3, steps=4 if quick else 5, sim=(20, 12) if quick else (400, 16), cap=130 if quick else None, mc=not quick or a == "epidemic"))
    for a in (["epidemic"] if quick else ALGOS):
        def expiry_met(h, fam=None):
            # behaviours in which a bundle whose lifetime has run out meets an occasion to be transmitted: received with a peer
            # connected after time has advanced, or stored before and retried afterwards
            acts = [st["act"] for st in h]
            if "Advance" not in acts:
                return 0
            i = acts.index("Advance")
            n = 0
            for j in range(i + 1, len(h)):
                if acts[j] == "Receive":
                    n += 3
                elif acts[j] in ("PeerUp", "RetryTick") and h[j - 1]["exp"]["stored"]:
                    n += 2
            return 10 * n + sum(len(st["exp"]["sends"]) for st in h)
        for nm, lf in (("lifetime", lifefam), ("lifetime-age", lifefam2)):
            plans.append(dict(name=nm, fam=lf, algo=a, budget=3, steps=5 if quick else 6, cap=70 if quick else 700, mc=not quick, prefer=expiry_met))
    for a in (["epidemic"] if quick else ["epidemic", "spray", "prophet"]):
        plans.append(dict(name="age-retry", fam=agefam, algo=a, budget=3, steps=3, sim=(1500, 8) if quick else (20000, 10), cap=24 if quick else 300,
                          mc=False, prefer=late_attempts))
    total, st = run_families(chk, "C06", plans, tier)
    own_violations(chk, "C06")
    if st.get("expected_sends", 0) < 50:
        raise InfraError("vacuous: hardly any transmissions")
    chk.cov["traces_validated_against_impl"] = total
    chk.cov["evaluations"] = total
    chk.cov["distinct_nontrivial"] = total
    chk.cov["transmissions_checked_for_faithfulness"] = st.get("expected_sends")
    return chk.finish()
