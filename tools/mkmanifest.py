#!/usr/bin/env python3
"""Regenerates /verif/MANIFEST.json from the table below (single source of truth)."""
import json, os, sys
ROOT = os.path.dirname(os.path.dirname(os.path.abspath(__file__)))

CHECKS = {
    "C16": dict(
        category="model_checking",
        text="ClaManager.tla (one action per public call / handler case of cla.Manager) is checked exhaustively by TLC for "
             "1-2 adapters x 1-2 instances, budgets 0..3, permanent or not; one behaviour per edge of the reduced state graph "
             "plus random deep behaviours are replayed on the real Manager with scripted adapters, comparing active set and "
             "Start/Close counts after every action. Right level: the property quantifies over histories of a small reactive "
             "state machine, which bounded model checking plus replay covers completely up to the bound.",
        design_ref="DESIGN.md section 6 C16",
        note="Trusted: TLC, the scripted mock adapters, the ticker hook (verif tag) delivering one retry tick per Tick action. "
             "Bounded: history length 6 (quick) / 8 (thorough) exhaustively, 14-24 random.",
        technique="TLA+ spec + TLC exhaustive check + replay of TLC behaviours on the real cla.Manager",
    ),
    "C09": dict(
        category="model_checking",
        text="Every call of the real Bundle.Fragment(mtu) over a generated space (block mixes, CRC types, endpoint forms, payload 0..40 x "
             "every mtu from below the minimal overhead to above the bundle size, larger payloads at CBOR width boundaries, second-level "
             "fragmentation) is recorded and judged by the TLA+ operator Frag!FragRecProblems evaluated by TLC (size limit, partition of the "
             "payload, totals, header fields, extension blocks, validity, byte-identical reassembly in three orders). Frag.tla itself is "
             "model-checked. Pure-function property: TLA+ as executable reference, records from the real code as the trace.",
        design_ref="DESIGN.md section 6 C09",
        note="Trusted: TLC, the recorder harness (it computes sizes and byte comparisons; TLC judges structure). The must-not-fragment-but-fits "
             "case is left unconstrained. Payloads above 70000 bytes and multi-entry map blocks are not generated.",
        technique="TLA+ reference operators evaluated by TLC over records of real Fragment() calls (trace validation of a pure function)",
    ),
    "C10": dict(
        category="model_checking",
        text="Frag.tla models arrival of arbitrary fragments (intervals) of one bundle; TLC checks the sweep algorithm against the set-based "
             "definition of coverage for all sequences of <=K intervals over N cells, and prints all of them; each is replayed as real "
             "fragment bundles through IsBundleReassemblable/ReassembleFragments after every arrival (panic = violation). Subsets, "
             "duplicates and shuffles of real Fragment() output from up to three limits plus second-level fragments are reassembled by the "
             "real code and judged by Frag!ReasmRecProblems in TLC.",
        design_ref="DESIGN.md section 6 C10",
        note="Trusted: TLC, harness construction of synthetic fragments. Bounds: N<=5,K<=3 / N=3,K=4 quick; N<=6,K<=4 thorough. The store's "
             "completeness test is covered under C08's harness.",
        technique="TLA+ spec + TLC enumeration of interval sequences replayed on the real reassembly code; TLC-judged records of real fragments",
    ),
}

NOT_YET = "machinery for this property is not built yet in this revision (planned in DESIGN.md section 6)"


def main():
    props = [json.loads(l) for l in open(os.path.join(ROOT, "properties.jsonl"))]
    checks = []
    na = []
    for p in props:
        pid = p["id"]
        c = CHECKS.get(pid)
        if not c:
            na.append({"property_id": pid, "reason": NA.get(pid, NOT_YET)})
            continue
        checks.append({
            "property_id": pid,
            "quick_cmd": "bin/check %s quick" % pid,
            "thorough_cmd": "bin/check %s thorough" % pid,
            "evidence_file": "/verif/evidence/%s.json" % pid,
            "replay_cmd_template": "cat {path}",
            "engine": "tla-replay",
            "level_claimed": {"category": c["category"], "text": c["text"], "design_ref": c["design_ref"]},
            "level_note": c["note"],
            "technique": c["technique"],
        })
    m = {
        "version": 1,
        "setup_cmd": "bin/setup",
        "hooks": {
            "guard": "verif",
            "enable": "go test -tags verif -overlay <harness overlay> (harness sources under /verif/harness are compiled inside the repo's packages)",
            "baseline_off_cmd": "cd /repo && GOFLAGS=-mod=mod GOPROXY=off go test -vet=off -count=1 -timeout 25m ./...",
            "source_commits": HOOK_COMMITS,
            "add_only": True,
        },
        "engines": [{
            "name": "tla-replay", "path": "/verif/tools/vlib.py",
            "serves_properties": sorted(CHECKS),
            "kind_free_text": "TLA+ specifications under /verif/spec checked with TLC; TLC-generated behaviours replayed on the real code and "
                              "traces recorded from the real code validated by TLC, through in-package Go harnesses compiled with go test -overlay",
        }],
        "checks": checks,
        "notes": "See DESIGN.md. Exit codes: 0 held, 1 VIOLATION (replay file under /verif/out), 2 infrastructure error (no verdict).",
        "not_applicable": na,
    }
    with open(os.path.join(ROOT, "MANIFEST.json"), "w") as fh:
        json.dump(m, fh, indent=1)
    print("MANIFEST.json: %d checks, %d not_applicable" % (len(checks), len(na)))


NA = {}
HOOK_COMMITS = ["ba2cc1f"]

if __name__ == "__main__":
    main()
