"""C14 Bundles originated at the node get distinct IDs, in the store and on the wire."""
import os
from props.corecommon import *


def run(tier):
    chk = Check("C14", tier, "model_checking")
    quick = tier == "quick"
    chk.assumptions = ["submissions go through a real ApplicationAgent -> MuxAgent -> AgentManager -> Core.SendBundle; status reports through "
                       "Core.SendStatusReport (bundles requesting reports in the same family)",
                       "bundles of one group share source endpoint and creation millisecond (also the zero creation time); the node must number them",
                       "IDs are read from the store records (by payload) and from the bytes the mock convergence layers were handed",
                       "concurrent submission groups are run as a stress loop in the thorough tier"]
    chk.cov["rule"] = ("Core.tla assigns the sequence number at Submit, before the store key exists; behaviours over submissions with coinciding "
                       "(source, time), peers appearing, failing sends, retries and restarts are replayed; after every event the stored sequence "
                       "number of every submitted bundle and the sequence number in every transmitted copy are compared with the assigned one.")
    P = ["p1", "p2"]
    fam = dict(peers=P, enabled=["Submit", "PeerUp", "PeerDown", "SetFail", "RetryTick", "Restart"],
               cat={"b1": attr("app", "far", tsg=1), "b2": attr("app", "far", tsg=1), "b3": attr("app", "p1", tsg=1), "b4": attr("app", "far", tsg=2)})
    famz = dict(peers=P, enabled=["Submit", "PeerUp", "SetFail", "RetryTick", "Restart", "CleanTick"],
                cat={"z1": attr("app", "far", tsg=1, clockless=True), "z2": attr("app", "p2", tsg=1, clockless=True), "z3": attr("app", "far", tsg=1, clockless=True)})
    # a gap in the stored numbers (lower one delivered and released, higher one still stored), a restart, then two submissions
    famg = dict(peers=["p2"], enabled=["Submit", "PeerUp", "Restart"],
                cat={"z1": attr("app", "far", tsg=1, clockless=True), "z2": attr("app", "p2", tsg=1, clockless=True), "z3": attr("app", "far", tsg=1, clockless=True),
                     "z4": attr("app", "far", tsg=1, clockless=True)})

    def after_restart(h):
        acts = [st["act"] for st in h]
        if "Restart" not in acts:
            return 0
        i = len(acts) - 1 - acts[::-1].index("Restart")
        return acts[i:].count("Submit") * 10 + acts[:i].count("Submit") + (5 if "PeerUp" in acts[:i] else 0)
    plans = [dict(name="epoch-gap", fam=famg, algo="epidemic", budget=3, steps=6, cap=350 if quick else 3000, mc=False, prefer=after_restart)]
    for a in (["epidemic", "binary_spray"] if quick else ALGOS):
        plans.append(dict(name="same-ms", fam=fam, algo=a, budget=3, steps=5 if quick else 6, sim=(30, 12) if quick else (600, 16), cap=250 if quick else 3000, mc=not quick or a == "epidemic"))
        plans.append(dict(name="epoch", fam=famz, algo=a, budget=3, steps=5 if quick else 6, cap=200 if quick else 2000, mc=False))
    # bundles whose (common) creation time lies ten minutes in the past: the counter must not be forgotten between them
    famo = dict(peers=P, enabled=["Submit", "PeerUp", "RetryTick"],
                cat={"o1": attr("app", "far", tsg=3, oldts=True), "o2": attr("app", "p2", tsg=3, oldts=True), "o3": attr("app", "far", tsg=3, oldts=True)})
    plans.append(dict(name="old-time", fam=famo, algo="epidemic", budget=3, steps=4 if quick else 5, cap=80 if quick else 1000, mc=False))
    # anonymous submissions (source dtn:none) of one instant, with and without a clock
    fama = dict(peers=P, enabled=["Submit", "PeerUp", "RetryTick"],
                cat={"n1": attr("app", "far", tsg=4, anon=True), "n2": attr("app", "p2", tsg=4, anon=True), "n3": attr("app", "far", tsg=4, anon=True),
                     "n4": attr("app", "far", tsg=5, anon=True, clockless=True), "n5": attr("app", "far", tsg=5, anon=True, clockless=True)})
    plans.append(dict(name="anonymous", fam=fama, algo="epidemic", budget=3, steps=4 if quick else 5, cap=90 if quick else 1000, mc=False))
    total, st = run_families(chk, "C14", plans, tier)
    own_violations(chk, "C14")
    # several goroutines submit bundles of one source and instant at the same moment
    crecf = os.path.join(scratch("rec"), "c14-conc.ndjson")
    st5 = run_harness(chk, "concurrent submissions", "pkg/routing", FILES + ["routing/c14_concurrent.go"], "TestVerifC14Concurrent",
                      env={"VERIF_REC": crecf, "VERIF_ROUNDS": 60 if quick else 600}, timeout=900)
    crecs = read_ndjson(crecf)
    if len(crecs) != st5.get("rounds") or len(crecs) < 30:
        raise InfraError("concurrent submission recorder incomplete: %s" % st5)
    cmod = {"IdCheck.tla": """---- MODULE IdCheck ----
EXTENDS Integers, Sequences, FiniteSets, TLC, Json
CONSTANT RecFile
Recs == ndJsonDeserialize(RecFile)
\\* the rule DistinctIds of Core.tla for one round of submissions of one source and creation time: distinct numbers, each bundle filed under its own
IdProblems(r) ==
  {p \\in {"same-id-assigned-twice", "bundle-not-filed-under-its-id"} :
     CASE p = "same-id-assigned-twice" -> Cardinality({r.seqs[i] : i \\in 1..Len(r.seqs)}) # Len(r.seqs)
       [] p = "bundle-not-filed-under-its-id" -> \\E i \\in 1..Len(r.filed) : ~r.filed[i]}
ASSUME \\A i \\in 1..Len(Recs) : LET p == IdProblems(Recs[i]) IN p = {} \\/ PrintT(<<"BAD", ToJson([i |-> i, problems |-> p])>>)
ASSUME PrintT(<<"CHECKED", ToJson([n |-> Len(Recs)])>>)
VARIABLE x
CheckSpec == x = 0 /\\ [][FALSE]_x
====
"""}
    n5, bad5, results5 = check_records("IdCheck", "", crecs, name="idcheck", extra_files=cmod)
    for r in results5:
        chk.add_tlc("concurrent submission records", r)
    for idx, problems in bad5:
        for p in problems:
            chk.violation("id/concurrent/" + p, "record judged by IdCheck (DistinctIds): " + json.dumps(crecs[idx]), crecs[idx])
    chk.cov["traces_validated_against_impl"] = total
    chk.cov["evaluations"] = total
    chk.cov["distinct_nontrivial"] = total
    return chk.finish()
