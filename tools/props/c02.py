"""C02 Only well-formed bundles are accepted; the node only produces well-formed ones."""
from props.wirecommon import *


def run(tier):
    chk = Check("C02", tier, "model_checking")
    chk.assumptions = ["rule-violating inputs are valid CBOR encodings with correct CRCs produced by Wire.tla's encoder from abstract bundles in "
                       "which Valid.tla applied 1, 2 (thorough: 3) rule-breaking mutations",
                       "the verdict is taken on the projection of what the real parser returned (accepted => Valid!IsValidBundle(projection))",
                       "lifetime rule: generator keeps creation times decades in the past or at 'now' with 24 h lifetime, never near the boundary",
                       "node-generated bundles (status reports, pongs, routing metadata) are validated by the Core replays (C05/C15), not here"]
    chk.cov["rule"] = ("TLC (Valid.tla) enumerates valid families and all singles/pairs of 20 rule-breaking mutations of a base bundle, encoded "
                       "by Wire.tla; each encoding is fed to the real ParseBundle and (verdict, projection) is recorded; producers (Builder "
                       "programs, BuildFromMap maps, Fragment, ReassembleFragments) are run and every bundle they return is recorded; TLC "
                       "(WireCheck.tla) judges each record with one operator per structural rule. distinct = distinct records.")
    fams = ["mut1", "mut2", "flags", "eids", "crc", "widths"] + (["mut3", "blocks"] if tier == "thorough" else [])
    cases = generate(chk, fams)
    inp = write_input("c02.ndjson", cases)
    recf = os.path.join(scratch("rec"), "c02.ndjson")
    st = run_harness(chk, "parse and project", "pkg/bpv7", FILES, "TestVerifC02Record", env={"VERIF_IN": inp, "VERIF_REC": recf, "VERIF_PAR": 16},
                     timeout=1500, crash_key="parser/crash")
    recs = read_ndjson(recf)
    parse = [r for r in recs if r["t"] == "parse"]
    prod = [r for r in recs if r["t"] == "produced"]
    muts = [r for r in parse if r["origin"] == "tlc:mut"]
    if not muts or not any(r["accepted"] for r in muts) or not any(not r["accepted"] for r in muts) or len(prod) < 50:
        raise InfraError("vacuous: mutants=%d accepted=%d producers=%d" % (len(muts), sum(r["accepted"] for r in muts), len(prod)))

    def keyfn(key, r):
        return key + ("/" + r["origin"] if r["t"] == "produced" else "")
    n, nbad, _ = judge(chk, recs, "wellformed", keyfn)
    chk.cov["traces_validated_against_impl"] = n
    chk.cov["evaluations"] = n
    chk.cov["distinct_nontrivial"] = len({json.dumps(r, sort_keys=True) for r in recs})
    chk.cov["parser_inputs"] = len(parse)
    chk.cov["parser_accepted"] = sum(1 for r in parse if r["accepted"])
    chk.cov["mutants"] = len(muts)
    chk.cov["mutants_accepted"] = sum(1 for r in muts if r["accepted"])
    chk.cov["produced_bundles"] = len(prod)
    chk.cov["produced_by"] = {o: sum(1 for r in prod if r["origin"] == o) for o in sorted({r["origin"] for r in prod})}
    chk.cov["samples"] += [{"mutant": muts[0]["tag"], "accepted": muts[0]["accepted"], "err": muts[0]["err"]}, {"produced": prod[0]["origin"], "proj": prod[0]["proj"]}]
    return chk.finish()
