"""Growth beyond the listed properties: TCPCLv4 session life cycle (Session.tla, SessionCheck.tla)."""
import json, os
from vlib import *

FILES = ["common/vh.go", "stages/session.go"]


def mc(mode, active, own, peers):
    return {"MCSession.tla": "---- MODULE MCSession ----\nEXTENDS Session\nMCOwn == <<%s>>\nMCPeers == {%s}\n====\n" % (
        ", ".join(str(x) for x in own), ", ".join(str(x) for x in peers))}


def cfg(mode, active, steps, emit, props=(), invs=("TypeOK", "UpOnlyEstablished", "Emit"), spec="Spec", view=True):
    t = ('SPECIFICATION %s\nCONSTANTS\n Mode = "%s"\n EnvActive = %s\n OwnKA <- MCOwn\n PeerKAs <- MCPeers\n MaxSteps = %d\n EmitMode = "%s"\n'
         % (spec, mode, "TRUE" if active else "FALSE", steps, emit))
    t += "INVARIANTS " + " ".join(invs) + "\n"
    if props:
        t += "PROPERTIES " + " ".join(props) + "\n"
    if view:
        t += "VIEW SView\n"
    return t


def run(tier):
    chk = Check("G-session", tier, "model_checking", growth=True)
    quick = tier == "quick"
    chk.assumptions = ["messages are injected into / read from the channels a MessageSwitch would serve; the byte formats are C17's",
                       "keep-alive timing is judged with a scheduling tolerance of 300 ms on sessions with a 1 s keep-alive",
                       "pair mode (two endpoints, FIFO links) is checked on the model only; each endpoint's reactions are the ones replayed"]
    chk.cov["rule"] = ("Session.tla pair mode: agreement on negotiated values, no spurious failure, ordering, handshake liveness, orderly end. "
                       "Env mode: one behaviour per edge of the reduced graph (+ random deep ones) replayed on a real StageHandler with the "
                       "client's three stages, outputs / error class / messages handed up / negotiated values compared after every step. "
                       "SessionCheck.tla judges keep-alive timestamps of real sessions.")
    jobs = []
    for own in ((30, 20), (0, 30), (20, 20)):
        m = mc("pair", True, own, (0,))
        jobs.append(("pair%s" % (own,), dict(module="MCSession", extra_files=m, deadlock=False, workers=2, name="sess-pair-%d-%d" % own,
                                              cfg_text=cfg("pair", True, 14, "none", props=("BothEnd",), invs=("TypeOK", "Agreement", "NoSpuriousFailure", "Order", "UpOnlyEstablished"), spec="FairSpec", view=False))))
        jobs.append(("live%s" % (own,), dict(module="MCSession", extra_files=m, deadlock=False, workers=2, name="sess-live-%d-%d" % own,
                                              cfg_text=cfg("pair", True, 12, "none", props=("Establishes",), invs=("TypeOK",), spec="NoCloseSpec", view=False))))
    steps = 5 if quick else 7
    gens = []
    for active in (True, False):
        for own in (0, 30):
            m = mc("env", active, (own,), (0, 20, 40))
            lab = "env-%s-%d" % ("active" if active else "passive", own)
            jobs.append((lab, dict(module="MCSession", extra_files=m, deadlock=False, workers=2, name="sess-" + lab, cfg_text=cfg("env", active, steps, "edge"))))
            jobs.append((lab + "-sim", dict(module="MCSession", extra_files=m, deadlock=False, workers=1, name="sess-sim-" + lab,
                                            cfg_text=cfg("env", active, 10, "final", view=False), simulate=100 if quick else 3000, depth=14, tseed=seed() * 17 + own)))
            gens.append((lab, active, own))
    res = tlc_parallel(jobs, par=8)
    for lab, kw in jobs:
        r = need_ok(res[lab], "Session " + lab)
        chk.add_tlc(lab, r)
    cases, seen = [], set()
    for lab, active, own in gens:
        for h in res[lab].traces + res[lab + "-sim"].traces:
            c = {"active": active, "own": own, "h": h}
            k = json.dumps(c, sort_keys=True)
            if k not in seen:
                seen.add(k)
                cases.append(c)
    inp = write_input("session.ndjson", cases)
    st = run_harness(chk, "session replay", "pkg/cla/tcpclv4/internal/stages", FILES, "TestVerifSessionReplay", env={"VERIF_IN": inp}, timeout=1500)
    if st.get("histories") != len(cases) or st.get("end_est", 0) == 0 or st.get("end_failed", 0) == 0 or st.get("end_closed", 0) == 0:
        raise InfraError("vacuous or incomplete: %s" % st)
    recf = os.path.join(scratch("rec"), "session-timing.ndjson")
    st2 = run_harness(chk, "keep-alive timing", "pkg/cla/tcpclv4/internal/stages", FILES, "TestVerifSessionTiming",
                      env={"VERIF_REC": recf, "VERIF_REPS": 2 if quick else 6}, timeout=600)
    recs = read_ndjson(recf)
    if len(recs) != st2.get("sessions") or not recs:
        raise InfraError("timing recorder incomplete: %s" % st2)
    n, bad, results = check_records("SessionCheck", " Slack = 300", recs, name="sessioncheck")
    for r in results:
        chk.add_tlc("SessionCheck records", r)
    for idx, problems in bad:
        for p in problems:
            chk.violation("session/timing/%s/%s" % (p, recs[idx]["scenario"]), "record judged by SessionCheck.tla: " + json.dumps(recs[idx])[:600], recs[idx])
    chk.cov["traces_validated_against_impl"] = len(cases) + n
    chk.cov["evaluations"] = len(cases) + n
    chk.cov["distinct_nontrivial"] = len(cases)
    chk.cov["timed_sessions"] = n
    return chk.finish()
