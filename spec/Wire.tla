------------------------------ MODULE Wire ------------------------------
(* Wire formats of dtn7-go as byte sequences (properties C01 C02 C03 C04 C17).            *)
(* TLC integers are 32-bit, so an unsigned 64-bit value is carried as its minimal          *)
(* big-endian byte sequence ("U"): <<>> = 0, <<1,0>> = 256, ... and CRC-32 as two halves.  *)
EXTENDS Integers, Sequences, FiniteSets, Bitwise, SequencesExt, TLC

Byte == 0..255
Concat(ss) == FoldLeft(LAMBDA a, b : a \o b, <<>>, ss)     \* ss: sequence of byte sequences

-----------------------------------------------------------------------------
(* unsigned integers *)
RECURSIVE UOfInt(_)
UOfInt(n) == IF n = 0 THEN <<>> ELSE UOfInt(n \div 256) \o <<n % 256>>
RECURSIVE IntOfU(_)
IntOfU(u) == IF u = <<>> THEN 0 ELSE IntOfU(SubSeq(u, 1, Len(u) - 1)) * 256 + u[Len(u)]   \* only for < 2^31
FitsInt(u) == Len(u) <= 3 \/ (Len(u) = 4 /\ u[1] < 128)
Pad(u, w) == [i \in 1..(w - Len(u)) |-> 0] \o u

(* CBOR head of major type m with argument u (minimal encoding) *)
CHead(m, u) ==
  CASE Len(u) = 0 -> <<m * 32>>
    [] Len(u) = 1 /\ u[1] < 24 -> <<m * 32 + u[1]>>
    [] Len(u) = 1 -> <<m * 32 + 24, u[1]>>
    [] Len(u) = 2 -> <<m * 32 + 25>> \o u
    [] Len(u) \in 3..4 -> <<m * 32 + 26>> \o Pad(u, 4)
    [] Len(u) \in 5..8 -> <<m * 32 + 27>> \o Pad(u, 8)
(* the same argument in a wider (non-minimal but well-formed) head: w in {1,2,4,8} bytes *)
CHeadW(m, u, w) == <<m * 32 + (CASE w = 1 -> 24 [] w = 2 -> 25 [] w = 4 -> 26 [] w = 8 -> 27)>> \o Pad(u, w)
CHeadI(m, n) == CHead(m, UOfInt(n))

UInt(u) == CHead(0, u)
UIntI(n) == CHeadI(0, n)
(* an unsigned integer in a head of w argument bytes (w = 0: minimal). Non-minimal heads are well-formed CBOR which the parser
   accepts; whatever it then writes must again be accepted *)
WidthOf(u) == CASE Len(u) = 0 \/ (Len(u) = 1 /\ u[1] < 24) -> 0 [] Len(u) = 1 -> 1 [] Len(u) = 2 -> 2 [] Len(u) \in 3..4 -> 4 [] OTHER -> 8
UIntW(u, w) == IF w = 0 \/ w < WidthOf(u) THEN UInt(u) ELSE CHeadW(0, u, w)
BStr(b) == CHeadI(2, Len(b)) \o b
TStr(c) == CHeadI(3, Len(c)) \o c
Arr(n) == CHeadI(4, n)
Map(n) == CHeadI(5, n)

-----------------------------------------------------------------------------
(* CRC-16/X-25 and CRC-32C, reflected, table driven; tables are built bit-serially from the polynomials *)
RECURSIVE Step16(_, _)
Step16(c, k) == IF k = 0 THEN c ELSE Step16(IF c % 2 = 1 THEN shiftR(c, 1) ^^ 33800 ELSE shiftR(c, 1), k - 1)   \* 0x8408
T16 == [i \in 0..255 |-> Step16(i, 8)]

Crc16Raw(bytes) == FoldLeft(LAMBDA c, b : T16[(c ^^ b) & 255] ^^ shiftR(c, 8), 65535, bytes) ^^ 65535
Crc16X25(bytes) == LET c == Crc16Raw(bytes) IN <<shiftR(c, 8), c & 255>>

\* 32-bit register as <<hi16, lo16>>; polynomial 0x82F63B78 = <<0x82F6, 0x3B78>> = <<33526, 15224>>
RECURSIVE Step32(_, _)
Step32(c, k) ==
  IF k = 0 THEN c
  ELSE LET hi == shiftR(c[1], 1)
           lo == shiftR(c[2], 1) | ((c[1] & 1) * 32768)
       IN Step32(IF c[2] % 2 = 1 THEN <<hi ^^ 33526, lo ^^ 15224>> ELSE <<hi, lo>>, k - 1)
T32 == [i \in 0..255 |-> Step32(<<0, i>>, 8)]

Crc32Raw(bytes) ==
  LET f(c, b) == LET t == T32[(c[2] ^^ b) & 255]
                 IN <<t[1] ^^ shiftR(c[1], 8), t[2] ^^ (shiftR(c[2], 8) | ((c[1] & 255) * 256))>>
      r == FoldLeft(f, <<65535, 65535>>, bytes)
  IN <<r[1] ^^ 65535, r[2] ^^ 65535>>
Crc32C(bytes) == LET c == Crc32Raw(bytes) IN <<shiftR(c[1], 8), c[1] & 255, shiftR(c[2], 8), c[2] & 255>>

Ascii(s) == s   \* strings are carried as sequences of character codes already

\* standard check values: CRC-16/X-25("123456789") = 0x906E, CRC-32C("123456789") = 0xE3069283
CheckInput == <<49, 50, 51, 52, 53, 54, 55, 56, 57>>
ASSUME Crc16X25(CheckInput) = <<144, 110>>
ASSUME Crc32C(CheckInput) = <<227, 6, 146, 131>>

(* body: encoded block without the CRC field; result: block with the CRC byte string appended *)
WithCrc(body, crcType) ==
  CASE crcType = 1 -> body \o BStr(Crc16X25(body \o <<66, 0, 0>>))             \* 0x42 = bstr(2)
    [] crcType = 2 -> body \o BStr(Crc32C(body \o <<68, 0, 0, 0, 0>>))         \* 0x44 = bstr(4)
    [] OTHER -> body

-----------------------------------------------------------------------------
(* Bundle Protocol v7 encoders over abstract records *)
(* eid: [scheme: Nat, kind: "none"|"dtn"|"ipn"|"uint", text: codes, node: U, svc: U, n: U] *)
EncEid(e) ==
  Arr(2) \o UIntI(e.scheme) \o
  (CASE e.kind = "none" -> UIntI(0)
     [] e.kind = "uint" -> UInt(e.n)
     [] e.kind = "dtn"  -> TStr(e.text)
     [] e.kind = "ipn"  -> Arr(2) \o UInt(e.node) \o UInt(e.svc))

EncTs(t, seq) == Arr(2) \o UInt(t) \o UInt(seq)
EncTsW(t, seq, w) == Arr(2) \o UIntW(t, w) \o UIntW(seq, w)

(* primary: [ver, flags: U, crc: 0..2, dst, src, rpt, ts: U, seq: U, life: U, frag: BOOLEAN, foff: U, ftotal: U, w: head width of its integers] *)
PrimaryLen(p) == 8 + (IF p.crc # 0 THEN 1 ELSE 0) + (IF p.frag THEN 2 ELSE 0)
EncPrimary(p) ==
  WithCrc(Arr(PrimaryLen(p)) \o UIntW(UOfInt(p.ver), p.w) \o UIntW(p.flags, p.w) \o UIntW(UOfInt(p.crc), p.w)
          \o EncEid(p.dst) \o EncEid(p.src) \o EncEid(p.rpt) \o EncTsW(p.ts, p.seq, p.w) \o UIntW(p.life, p.w)
          \o (IF p.frag THEN UIntW(p.foff, p.w) \o UIntW(p.ftotal, p.w) ELSE <<>>), p.crc)

(* canonical: [type: Nat, num: Nat, flags: Nat, crc: 0..2, data: bytes]  (data = block-type-specific data, unwrapped) *)
EncCanonical(c) ==
  WithCrc(Arr(IF c.crc # 0 THEN 6 ELSE 5) \o UIntW(UOfInt(c.type), c.w) \o UIntW(UOfInt(c.num), c.w) \o UIntW(UOfInt(c.flags), c.w)
          \o UIntW(UOfInt(c.crc), c.w) \o BStr(c.data), c.crc)

EncBundle(b) == <<159>> \o EncPrimary(b.primary) \o Concat([i \in 1..Len(b.blocks) |-> EncCanonical(b.blocks[i])]) \o <<255>>

(* block-type-specific data *)
DataPrevNode(e) == EncEid(e)
DataAge(u) == UInt(u)
DataHop(limit, count) == Arr(2) \o UIntI(limit) \o UIntI(count)
DataSpray(u) == UInt(u)
DataSignature(pub, sig) == Arr(2) \o BStr(pub) \o BStr(sig)
DataDtlsr(e, ts, peers) == Arr(3) \o EncEid(e) \o UInt(ts) \o Map(Len(peers)) \o Concat([i \in 1..Len(peers) |-> EncEid(peers[i][1]) \o UInt(peers[i][2])])
\* cboring.WriteFloat64 writes the IEEE-754 bits through the unsigned-integer head of major type 7 (self-consistent, not RFC 8949)
DataProphet(peers) == Map(Len(peers)) \o Concat([i \in 1..Len(peers) |-> EncEid(peers[i][1]) \o CHead(7, peers[i][2])])

-----------------------------------------------------------------------------
(* Independent delimiter: walks definite-length CBOR items. Returns the position after the item that starts at   *)
(* pos, or 0 if the bytes are not well-formed / lengths do not fit.                                               *)
ArgWidth(ai) == CASE ai < 24 -> 0 [] ai = 24 -> 1 [] ai = 25 -> 2 [] ai = 26 -> 4 [] ai = 27 -> 8 [] OTHER -> -1
\* argument as an integer; -1 if malformed or too large to matter (>= 2^24 is never a sane length here)
ArgInt(bytes, pos) ==
  LET ai == bytes[pos] % 32
      w == ArgWidth(ai)
  IN IF w < 0 \/ pos + w > Len(bytes) THEN -1
     ELSE IF w = 0 THEN ai
     ELSE LET u == SubSeq(bytes, pos + 1, pos + w)
          IN CASE w \in {1, 2} -> IntOfU(u)
               [] w = 4 -> IF u[1] >= 128 THEN -1 ELSE IntOfU(u)
               [] w = 8 -> IF u[1] + u[2] + u[3] + u[4] > 0 \/ u[5] >= 128 THEN -1 ELSE IntOfU(SubSeq(u, 5, 8))

RECURSIVE ItemEnd(_, _), ItemsEnd(_, _, _)
ItemEnd(bytes, pos) ==
  IF pos < 1 \/ pos > Len(bytes) THEN 0
  ELSE LET m == bytes[pos] \div 32
           ai == bytes[pos] % 32
           w == ArgWidth(ai)
       IN IF w < 0 \/ pos + w > Len(bytes) THEN 0
          ELSE LET after == pos + 1 + w
                   n == ArgInt(bytes, pos)
               IN CASE m \in {0, 1, 7} -> after
                    [] m \in {2, 3} -> IF n < 0 \/ after + n - 1 > Len(bytes) THEN 0 ELSE after + n
                    [] m = 4 -> IF n < 0 THEN 0 ELSE ItemsEnd(bytes, after, n)
                    [] m = 5 -> IF n < 0 THEN 0 ELSE ItemsEnd(bytes, after, 2 * n)
                    [] m = 6 -> ItemEnd(bytes, after)
ItemsEnd(bytes, pos, k) ==
  IF k = 0 THEN pos
  ELSE LET e == ItemEnd(bytes, pos) IN IF e = 0 THEN 0 ELSE ItemsEnd(bytes, e, k - 1)

(* Split a bundle encoding into its block byte ranges: sequence of <<start, end>> (end exclusive); <<>> if malformed *)
RECURSIVE BlocksFrom(_, _, _)
BlocksFrom(bytes, pos, acc) ==
  IF pos > Len(bytes) THEN <<>>
  ELSE IF bytes[pos] = 255 THEN (IF pos = Len(bytes) THEN acc ELSE <<>>)
  ELSE LET e == ItemEnd(bytes, pos)
       IN IF e = 0 \/ bytes[pos] \div 32 # 4 THEN <<>> ELSE BlocksFrom(bytes, e, Append(acc, <<pos, e>>))
Delimit(bytes) == IF Len(bytes) < 2 \/ bytes[1] # 159 THEN <<>> ELSE BlocksFrom(bytes, 2, <<>>)

(* CRC type declared by a block: 3rd array item of the primary block, 4th of a canonical block *)
DeclaredCrc(blk, isPrimary) ==
  LET hdr == 1 + 1 + ArgWidth(blk[1] % 32)
      p == ItemsEnd(blk, hdr, IF isPrimary THEN 2 ELSE 3)
  IN IF p = 0 \/ p > Len(blk) \/ blk[p] \div 32 # 0 THEN -1 ELSE ArgInt(blk, p)

(* Does the block carry exactly the CRC its declared type demands?  "ok" | "bad" | "nocrc" | "malformed" *)
BlockCrcVerdict(blk, isPrimary) ==
  LET t == DeclaredCrc(blk, isPrimary)
      n == Len(blk)
  IN CASE t = 0 -> "nocrc"
       [] t = 1 -> IF n < 3 \/ blk[n - 2] # 66 THEN "malformed"
                   ELSE IF Crc16X25(SubSeq(blk, 1, n - 2) \o <<0, 0>>) = SubSeq(blk, n - 1, n) THEN "ok" ELSE "bad"
       [] t = 2 -> IF n < 5 \/ blk[n - 4] # 68 THEN "malformed"
                   ELSE IF Crc32C(SubSeq(blk, 1, n - 4) \o <<0, 0, 0, 0>>) = SubSeq(blk, n - 3, n) THEN "ok" ELSE "bad"
       [] OTHER -> "malformed"

BundleCrcVerdicts(bytes) ==
  LET d == Delimit(bytes)
  IN [i \in 1..Len(d) |-> BlockCrcVerdict(SubSeq(bytes, d[i][1], d[i][2] - 1), i = 1)]
=============================================================================
