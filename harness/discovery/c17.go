package discovery

// C17 (discovery announcements)

import (
	"bytes"
	"encoding/json"
	"fmt"
	"os"
	"reflect"
	"testing"

	"github.com/dtn7/dtn7-go/pkg/bpv7"
	"github.com/dtn7/dtn7-go/pkg/cla"
)

type vyEid struct {
	Kind string `json:"kind"`
	Text []int  `json:"text"`
	Node []int  `json:"node"`
	Svc  []int  `json:"svc"`
}

func vyU(u []int) uint64 {
	var v uint64
	for _, b := range u {
		v = v<<8 | uint64(b)
	}
	return v
}

func (e vyEid) build() bpv7.EndpointID {
	switch e.Kind {
	case "none":
		return bpv7.DtnNone()
	case "dtn":
		b := make([]byte, len(e.Text))
		for i, x := range e.Text {
			b[i] = byte(x)
		}
		return bpv7.MustNewEndpointID("dtn:" + string(b))
	}
	return bpv7.EndpointID{EndpointType: bpv7.IpnEndpoint{Node: vyU(e.Node), Service: vyU(e.Svc)}}
}

type vyCase struct {
	Valid bool  `json:"valid"`
	Bytes []int `json:"bytes"`
	Items []struct {
		Type int   `json:"type"`
		Eid  vyEid `json:"eid"`
		Port []int `json:"port"`
	} `json:"items"`
}

func TestVerifC17Discovery(t *testing.T) {
	n, ninv := 0, 0
	if err := vhLines(os.Getenv("VERIF_IN"), func(raw []byte) {
		var c vyCase
		if err := json.Unmarshal(raw, &c); err != nil {
			t.Fatal(err)
		}
		viol := func(key, desc string) {
			vhViol("aux/discovery/"+key, desc, vhRec{"case": json.RawMessage(raw)})
		}
		defer func() {
			if p := recover(); p != nil {
				viol("panic", fmt.Sprint(p))
			}
		}()
		var as []Announcement
		for _, it := range c.Items {
			as = append(as, Announcement{Type: cla.CLAType(it.Type), Endpoint: it.Eid.build(), Port: uint(vyU(it.Port))})
		}
		spec := make([]byte, len(c.Bytes))
		for i, x := range c.Bytes {
			spec[i] = byte(x)
		}
		real, err := MarshalAnnouncements(as)
		if err != nil {
			viol("marshal-error", err.Error())
			return
		}
		if !c.Valid {
			ninv++
			if _, err := UnmarshalAnnouncements(real); err == nil {
				viol("invalid-accepted", "announcement with an unknown CLA type code was decoded without error")
			}
			return
		}
		n++
		if !bytes.Equal(real, spec) {
			vhNote(fmt.Sprintf("format drift (diagnostic): discovery %x vs spec %x", real, spec))
		}
		got, err := UnmarshalAnnouncements(append(append([]byte{}, real...), 0xa5, 0x5a))
		if err != nil {
			viol("decode-error", err.Error())
			return
		}
		if len(got) != len(as) || (len(as) > 0 && !reflect.DeepEqual(got, as)) {
			viol("round-trip", fmt.Sprintf("decoded %v, encoded %v", got, as))
		}
		// the independent encoding of the specification decodes to the same value
		if got2, err := UnmarshalAnnouncements(spec); err != nil || len(got2) != len(as) || (len(as) > 0 && !reflect.DeepEqual(got2, as)) {
			viol("spec-encoding", fmt.Sprintf("the specification's encoding %x decodes to %v (%v)", spec, got2, err))
		}
	}); err != nil {
		t.Fatal(err)
	}
	vhStat("values_valid", n)
	vhStat("values_invalid", ninv)
	vhDone()
}
