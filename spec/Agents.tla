------------------------------- MODULE Agents -------------------------------
(* Local delivery to application agents (property C07): MuxAgent with a REST agent (clients with    *)
(* mailboxes), a WebSocket agent (connected clients), a ping agent and a plain agent.               *)
(* One action per public operation: REST register / unregister / fetch, WebSocket connect / close,  *)
(* Deliver (the AgentManager hands a bundle addressed to endpoint e to the mux).                    *)
(* Deliver and Fetch are atomic here: that is what "every bundle put into a mailbox is returned by  *)
(* the client's fetches exactly once" demands of concurrent executions.                             *)
EXTENDS Integers, Sequences, FiniteSets, TLC, Json

CONSTANTS Eps,       \* endpoints clients may register for
          RC, WC,    \* REST clients, WebSocket clients
          PlainEp,   \* endpoint of the plain (mock) agent
          PingEp,    \* endpoint of the ping agent
          MaxSteps, EmitMode

VARIABLES rest,   \* [RC -> Eps \cup {"none"}]  registration of each REST client
          box,    \* [RC -> Seq(Nat)]            mailbox contents (bundle numbers)
          ws,     \* [WC -> Eps \cup {"none"}]
          got,    \* [WC -> Seq(Nat)]            what each WebSocket client received since it connected
          plain,  \* Seq(Nat)                    what the plain agent received
          pongs,  \* number of pongs the ping agent produced
          nb, steps, hist
vars == <<rest, box, ws, got, plain, pongs, nb, steps, hist>>

Init == /\ rest = [c \in RC |-> "none"] /\ box = [c \in RC |-> <<>>]
        /\ ws = [c \in WC |-> "none"] /\ got = [c \in WC |-> <<>>]
        /\ plain = <<>> /\ pongs = 0 /\ nb = 0 /\ steps = 0 /\ hist = <<>>

Registered == {rest[c] : c \in RC} \cup {ws[c] : c \in WC} \cup {PlainEp, PingEp}

Exp(fetched, accepted) == [box |-> box', got |-> got', plain |-> plain', pongs |-> pongs', fetched |-> fetched, accepted |-> accepted]
Log(rec, fetched, accepted) ==
  /\ steps' = steps + 1
  /\ hist' = IF EmitMode = "none" THEN hist ELSE Append(hist, rec @@ [exp |-> Exp(fetched, accepted)])
  /\ (EmitMode = "edge") => PrintT(<<"TRACE", ToJson(hist')>>)
Go == steps < MaxSteps

RestRegister(c, e) ==
  /\ Go /\ rest[c] = "none"
  /\ rest' = [rest EXCEPT ![c] = e] /\ box' = [box EXCEPT ![c] = <<>>]
  /\ UNCHANGED <<ws, got, plain, pongs, nb>>
  /\ Log([act |-> "RestRegister", c |-> c, e |-> e], <<>>, TRUE)

RestUnregister(c) ==
  /\ Go /\ rest[c] # "none"
  /\ rest' = [rest EXCEPT ![c] = "none"] /\ box' = [box EXCEPT ![c] = <<>>]
  /\ UNCHANGED <<ws, got, plain, pongs, nb>>
  /\ Log([act |-> "RestUnregister", c |-> c], <<>>, TRUE)

RestFetch(c) ==
  /\ Go /\ rest[c] # "none"
  /\ box' = [box EXCEPT ![c] = <<>>]
  /\ UNCHANGED <<rest, ws, got, plain, pongs, nb>>
  /\ Log([act |-> "RestFetch", c |-> c], box[c], TRUE)

WsConnect(c, e) ==
  /\ Go /\ ws[c] = "none"
  /\ ws' = [ws EXCEPT ![c] = e] /\ got' = [got EXCEPT ![c] = <<>>]
  /\ UNCHANGED <<rest, box, plain, pongs, nb>>
  /\ Log([act |-> "WsConnect", c |-> c, e |-> e], <<>>, TRUE)

WsClose(c) ==
  /\ Go /\ ws[c] # "none"
  /\ ws' = [ws EXCEPT ![c] = "none"] /\ got' = [got EXCEPT ![c] = <<>>]
  /\ UNCHANGED <<rest, box, plain, pongs, nb>>
  /\ Log([act |-> "WsClose", c |-> c], <<>>, TRUE)

(* a bundle addressed to e arrives: everybody registered for exactly e gets it once, nobody else does *)
Deliver(e) ==
  /\ Go
  /\ nb' = nb + 1
  /\ IF e \in Registered
     THEN /\ box' = [c \in RC |-> IF rest[c] = e THEN Append(box[c], nb + 1) ELSE box[c]]
          /\ got' = [c \in WC |-> IF ws[c] = e THEN Append(got[c], nb + 1) ELSE got[c]]
          /\ plain' = IF e = PlainEp THEN Append(plain, nb + 1) ELSE plain
          /\ pongs' = IF e = PingEp THEN pongs + 1 ELSE pongs
     ELSE UNCHANGED <<box, got, plain, pongs>>       \* nobody to hand it to: the caller is told so
  /\ UNCHANGED <<rest, ws>>
  /\ Log([act |-> "Deliver", e |-> e, n |-> nb + 1], <<>>, e \in Registered)

Next == \/ \E c \in RC, e \in Eps : RestRegister(c, e)
        \/ \E c \in RC : RestUnregister(c) \/ RestFetch(c)
        \/ \E c \in WC, e \in Eps : WsConnect(c, e)
        \/ \E c \in WC : WsClose(c)
        \/ \E e \in Eps \cup {PlainEp, PingEp, "nobody"} : Deliver(e)
Spec == Init /\ [][Next]_vars

(* every bundle in a mailbox was addressed to the endpoint the client registered, each at most once, in order *)
RECURSIVE Increasing(_)
Increasing(s) == Len(s) < 2 \/ (s[1] < s[2] /\ Increasing(Tail(s)))
MailboxSound == \A c \in RC : Increasing(box[c]) /\ (rest[c] = "none" => box[c] = <<>>)
WsSound == \A c \in WC : Increasing(got[c])
AView == <<rest, box, ws, got, plain, pongs, nb, steps>>
Emit == (EmitMode = "final" /\ steps = MaxSteps) => PrintT(<<"TRACE", ToJson(hist)>>)

(* judgement of forced interleavings of one delivery and one fetch on the same mailbox:                      *)
(* rec: [before: Seq, delivered: Nat, fetched1: Seq, fetched2: Seq]  (fetch2 is a later, sequential fetch)   *)
RaceProblems(r) ==
  LET all == r.fetched1 \o r.fetched2
      want == Append(r.before, r.delivered)
  IN {p \in {"bundle-lost", "bundle-returned-twice"} :
        CASE p = "bundle-lost" -> \E i \in 1..Len(want) : \A j \in 1..Len(all) : all[j] # want[i]
          [] p = "bundle-returned-twice" -> \E i, j \in 1..Len(all) : i # j /\ all[i] = all[j]}
=============================================================================
