"""C05 Store-carry-forward: an accepted bundle is never silently lost."""
from props.corecommon import *


def families():
    P = ["p1", "p2", "p3"]
    return {
        "plain": dict(peers=P, enabled=BASIC + ["Restart", "CleanTick"],
                      cat={"b1": attr("app", "far"), "b2": attr("p1", "p2", prev="p1")}),
        "samets": dict(peers=P[:2], enabled=["Submit", "PeerUp", "SetFail", "RetryTick", "Restart"],
                       cat={"b1": attr("app", "far", tsg=1), "b2": attr("app", "far", tsg=1), "b3": attr("app", "p1", tsg=1)}),
        # a bundle arrives from a peer at the moment the application submits one (Core.handler and the agent manager's goroutine
        # work on the shared store at the same time): both are accepted; several such moments per behaviour
        "race": dict(peers=P[:2], enabled=["PeerUp", "Race", "RetryTick"],
                     cat={"r1": attr("p1", "far", prev="p1"), "r2": attr("p1", "far", prev="p1"), "r3": attr("p1", "far", prev="p1"), "r4": attr("p1", "far", prev="p1"),
                          "s1": attr("app", "far"), "s2": attr("app", "far"), "s3": attr("app", "far"), "s4": attr("app", "far")}),
        "clockless": dict(peers=P[:2], enabled=BASIC + ["CleanTick", "Restart"],
                          cat={"b1": attr("app", "far", clockless=True), "b2": attr("p1", "p2", prev="p1", clockless=True),
                               # two seconds of lifetime counted by the age block alone: every millisecond in the node must count as one
                               "b3": attr("p1", "far", prev="p1", clockless=True, life="short")}),
    }


def run(tier):
    chk = Check("C05", tier, "model_checking")
    quick = tier == "quick"
    chk.assumptions = ["peers are mock convergence layers registered through the real cla.Manager; a send's outcome is scripted by the environment",
                       "events are issued one at a time and a barrier bundle proves that the Core handler finished each; cron jobs are unregistered and "
                       "their functions (checkPendingBundles, Store.DeleteExpired) invoked by the driver as the spec's tick actions",
                       "concurrent failure reports within one forward() are exercised (several failing peers at once); both orders of the two "
                       "store updates are forced separately in the thorough tier",
                       "restart = Core.Close + NewCore on the same directory; crashes of the store are C08's subject"]
    chk.cov["rule"] = ("Core.tla (pipeline + routing algorithm as operators, one action per event) is model-checked per algorithm and scenario "
                       "family; one behaviour per edge of the reduced state graph plus random deep ones are replayed on a real routing.Core, "
                       "comparing after every event: stored bundles, pending flags, transmissions (bundle, peer, outcome), local deliveries, "
                       "status reports. distinct = distinct behaviours replayed.")
    fams = families()
    plans = []
    algos = ALGOS
    for a in algos:
        plans.append(dict(name="plain", fam=fams["plain"], algo=a, budget=3, steps=4 if quick else 5, sim=(30, 10) if quick else (600, 16), cap=160 if quick else None, mc=(not quick or a in ("epidemic", "binary_spray"))))
    for a in (["epidemic"] if quick else algos):
        plans.append(dict(name="samets", fam=fams["samets"], algo=a, budget=3, steps=4 if quick else 5, cap=120 if quick else None, mc=not quick))
        plans.append(dict(name="clockless", fam=fams["clockless"], algo=a, budget=3, steps=4 if quick else 5, cap=120 if quick else None, mc=not quick))
    # the sensor-mule wrapper (around epidemic routing): sensor nodes get a bundle by direct delivery only, everybody else as usual
    mulefam = dict(peers=["p1", "s1", "s2"], enabled=BASIC + ["Restart"],
                   cat={"m1": attr("app", "far"), "m2": attr("app", "s1"), "m3": attr("s2", "far", prev="s2")})
    plans.append(dict(name="mule", fam=mulefam, algo="mule", budget=3, steps=4 if quick else 5, sim=(20, 10) if quick else (600, 16), cap=100 if quick else None, mc=not quick))
    plans.append(dict(name="race", fam=fams["race"], algo="epidemic", budget=3, steps=2, sim=(400, 6) if quick else (6000, 6), cap=300 if quick else 5000, mc=False,
                      prefer=lambda h: [st["act"] for st in h].count("Race")))
    total, st = run_families(chk, "C05", plans, tier)
    own_violations(chk, "C05")
    if st.get("races", 0) < 200:
        raise InfraError("vacuous: only %s concurrent arrivals were replayed" % st.get("races"))
    chk.cov["traces_validated_against_impl"] = total
    chk.cov["evaluations"] = total
    chk.cov["distinct_nontrivial"] = total
    return chk.finish()
