---------------------------- MODULE LinkCheck ----------------------------
(* Judgement of records written by the MTCP and BBC harnesses with the operators of Mtcp.tla and Bbc.tla *)
EXTENDS Integers, Sequences, TLC, Json
CONSTANT RecFile
B == INSTANCE Bbc WITH TrainLen <- <<1>>, K <- 0, EmitMode <- "none", table <- 0, delivered <- 0, failures <- 0, n <- 0, hist <- 0
M == INSTANCE Mtcp WITH NB <- 0, MaxOps <- 0, EmitMode <- "none", stream <- 0, closed <- 0, next <- 0, rd <- 0, delivered <- 0, srvDone <- 0, hist <- 0
Recs == ndJsonDeserialize(RecFile)
Problems(r) == CASE r.t = "train" -> B!TrainProblems(r) [] r.t = "faulty" -> B!FaultProblems(r) [] r.t = "client" -> M!ClientProblems(r)
ASSUME \A i \in 1..Len(Recs) : LET p == Problems(Recs[i]) IN p = {} \/ PrintT(<<"BAD", ToJson([i |-> i, problems |-> p])>>)
ASSUME PrintT(<<"CHECKED", ToJson([n |-> Len(Recs)])>>)
VARIABLE x
CheckSpec == x = 0 /\ [][FALSE]_x
=============================================================================
