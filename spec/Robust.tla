------------------------------- MODULE Robust -------------------------------
(* Model-generated hostile inputs (property C04, exploration): for every encoding of a base family, every   *)
(* position at which a decoder reads a CBOR length or count (found by walking the item structure, also       *)
(* inside byte strings that wrap CBOR) is replaced by each boundary value.                                   *)
EXTENDS WireAux

CONSTANTS NowU, Family      \* for the Valid.tla instance below
VARIABLE vb
V == INSTANCE Valid WITH b <- vb

BoundaryU == {<<>>, <<1>>, <<23>>, <<24>>, <<1, 0, 0>>, <<127, 255, 255, 255>>, <<128, 0, 0, 0>>, <<255, 255, 255, 255>>,
              <<64, 0, 0, 0, 0, 0, 0, 0>>, <<128, 0, 0, 0, 0, 0, 0, 0>>, <<255, 255, 255, 255, 255, 255, 255, 255>>}

RECURSIVE Walk(_, _), WalkN(_, _, _, _)
(* Walk(bytes, pos) = [end |-> position after the item (0 = malformed), heads |-> positions of all heads in it] *)
Walk(bytes, pos) ==
  IF pos < 1 \/ pos > Len(bytes) THEN [end |-> 0, heads |-> {}]
  ELSE LET m == bytes[pos] \div 32
           w == ArgWidth(bytes[pos] % 32)
       IN IF w < 0 \/ pos + w > Len(bytes) THEN [end |-> 0, heads |-> {}]
          ELSE LET after == pos + 1 + w
                   n == ArgInt(bytes, pos)
               IN CASE m \in {0, 1, 7} -> [end |-> after, heads |-> {pos}]
                    [] m \in {2, 3} -> IF n < 0 \/ after + n - 1 > Len(bytes) THEN [end |-> 0, heads |-> {pos}]
                                       ELSE LET inner == IF m = 2 /\ n > 0 THEN Walk(SubSeq(bytes, after, after + n - 1), 1) ELSE [end |-> 0, heads |-> {}]
                                            IN [end |-> after + n,
                                                heads |-> {pos} \cup (IF inner.end = n + 1 THEN {after - 1 + h : h \in inner.heads} ELSE {})]
                    [] m = 4 -> IF n < 0 THEN [end |-> 0, heads |-> {pos}] ELSE WalkN(bytes, after, n, {pos})
                    [] m = 5 -> IF n < 0 THEN [end |-> 0, heads |-> {pos}] ELSE WalkN(bytes, after, 2 * n, {pos})
                    [] m = 6 -> LET r == Walk(bytes, after) IN [end |-> r.end, heads |-> r.heads \cup {pos}]
WalkN(bytes, pos, k, acc) ==
  IF k = 0 THEN [end |-> pos, heads |-> acc]
  ELSE LET r == Walk(bytes, pos) IN IF r.end = 0 THEN [end |-> 0, heads |-> acc \cup r.heads] ELSE WalkN(bytes, r.end, k - 1, acc \cup r.heads)

(* heads of a whole input: a bundle is an indefinite array of blocks, everything else a single item *)
RECURSIVE BundleHeads(_, _, _)
BundleHeads(bytes, pos, acc) ==
  IF pos > Len(bytes) \/ bytes[pos] = 255 THEN acc
  ELSE LET r == Walk(bytes, pos) IN IF r.end = 0 THEN acc \cup r.heads ELSE BundleHeads(bytes, r.end, acc \cup r.heads)
HeadsOf(bytes) == IF Len(bytes) > 1 /\ bytes[1] = 159 THEN BundleHeads(bytes, 2, {}) ELSE Walk(bytes, 1).heads

(* replace the head at position p by the head of the same major type with argument u *)
WithHead(bytes, p, u) ==
  LET m == bytes[p] \div 32
      w == ArgWidth(bytes[p] % 32)
  IN SubSeq(bytes, 1, p - 1) \o CHead(m, u) \o SubSeq(bytes, p + 1 + w, Len(bytes))

Base ==
  CASE Fam = "bundle" -> {[kind |-> "bundle", bytes |-> EncBundle(x)] : x \in V!BlockCases \cup V!EidCases \cup V!CrcCases}
    [] Fam = "bundle-small" -> {[kind |-> "bundle", bytes |-> EncBundle(x)] : x \in {y \in V!BlockCases : y.tag[1] >= 7 \/ (y.tag[1] = 2 /\ y.tag[2] = 0)} \cup V!EidCases}
    [] Fam = "admin" -> {[kind |-> "admin", bytes |-> x.bytes] : x \in StatusReports}
    [] Fam = "announcements" -> {[kind |-> "announcements", bytes |-> x.bytes] : x \in {d \in Discovery : d.valid}}
    [] Fam = "wam" -> {[kind |-> "wam", bytes |-> x.bytes \o (IF "after" \in DOMAIN x THEN x.after ELSE <<>>)] : x \in {y \in WamGood : y.tail = 0 /\ y.valid /\ ("aftertail" \notin DOMAIN y \/ y.aftertail = 0)}}

VARIABLE c, done
RInit == c \in Base /\ done = FALSE /\ vb = 0
RNext == ~done /\ done' = TRUE /\ UNCHANGED <<c, vb>>
RSpec == RInit /\ [][RNext]_<<c, done, vb>>
\* one line per base encoding: the encoding and all its length/count mutants
REmit == done \/ PrintT(<<"TRACE", ToJson([kind |-> c.kind, base |-> c.bytes,
                                              mutants |-> {[at |-> p, oldw |-> ArgWidth(c.bytes[p] % 32), head |-> CHead(c.bytes[p] \div 32, u)]
                                                             : p \in HeadsOf(c.bytes), u \in BoundaryU}])>>)
=============================================================================
