#!/bin/sh
# usage: tools/runsome.sh <tier> <seed> <id>...
TIER=$1; SEED=$2; shift 2
cd "$(dirname "$0")/.."
for id in "$@"; do
  start=$(date +%s)
  VERIF_SEED=$SEED bin/check $id $TIER > /tmp/runall-$TIER-$SEED-$id.log 2>&1
  rc=$?
  end=$(date +%s)
  echo "$id rc=$rc $((end-start))s $(grep -c '^VIOLATION' /tmp/runall-$TIER-$SEED-$id.log) violations $(grep -c '^KNOWN-FINDING' /tmp/runall-$TIER-$SEED-$id.log) known :: $(tail -1 /tmp/runall-$TIER-$SEED-$id.log | cut -c1-160)"
done
