---------------------------- MODULE FragCheck ----------------------------
(* Validation of records written by the real code (harness/bpv7/frag.go) against the operators of Frag.tla. *)
(* One line per record in RecFile; problems are printed as <<"BAD", json>>; the behaviour part is empty.    *)
EXTENDS Frag

CONSTANT RecFile

Recs == ndJsonDeserialize(RecFile)

Problems(r) == IF r.t = "frag" THEN FragRecProblems(r) ELSE ReasmRecProblems(r)

ASSUME \A i \in 1..Len(Recs) :
          LET p == Problems(Recs[i]) IN
          p = {} \/ PrintT(<<"BAD", ToJson([i |-> i, problems |-> p])>>)
ASSUME PrintT(<<"CHECKED", ToJson([n |-> Len(Recs)])>>)

CheckSpec == got = <<>> /\ hist = <<>> /\ [][FALSE]_vars
=============================================================================
