"""C08 The bundle store behaves like a durable map and survives restarts and crashes."""
import json
from vlib import *

FILES = ["common/vh.go", "storage/c08.go"]


def mc(ids, expired):
    q = lambda xs: ", ".join('"%s"' % x for x in xs)
    return {"MCStore.tla": '---- MODULE MCStore ----\nEXTENDS Store\nMCIds == {%s}\nMCParts == {"f1", "f2", "f3"}\nMCExpired == {%s}\n====\n' % (q(ids), q(expired))}


def cfg(steps, mode, view=True, props=True):
    t = 'SPECIFICATION Spec\nCONSTANTS\n Ids <- MCIds\n Parts <- MCParts\n ExpiredIds <- MCExpired\n MaxSteps = %d\n EmitMode = "%s"\nINVARIANTS TypeOK CompleteIffCovered OrphansUnrecorded Emit\n' % (steps, mode)
    if props:
        t += "PROPERTIES CrashIsLocal ReopenIdentity\n"
    if view:
        t += "VIEW SView\n"
    return t


def run(tier):
    chk = Check("C08", tier, "model_checking")
    quick = tier == "quick"
    chk.assumptions = ["crash = the process is killed (os.Exit in a child process) at an instrumented point inside Push/Delete; power loss / fsync is not modelled",
                       "concurrent fragment pushes are forced to overlap through the verif yield point after the store's read (both pushes read before either writes); "
                       "if pushes are serialised by the store the gate times out after 300 ms and the run continues",
                       "expiry uses creation times decades in the past or 24 h in the future; Update sets Expires one hour in the past / one day in the future",
                       "every part file is compared byte-wise with what was pushed; complete records are loaded (reassembled) and compared with the original"]
    chk.cov["rule"] = ("Store.tla is model-checked; one behaviour per edge of its reduced state graph (VIEW without history) plus random deep ones are "
                       "replayed on a real storage.Store in a fresh directory, the projection through QueryId/QueryPending/KnowsBundle/IsComplete/Load "
                       "compared after every operation; crash actions run the operation in a child process that is killed at the hook, then the "
                       "store is reopened by the parent. distinct = distinct behaviours.")
    ids, expired = ["b1", "b2"], ["b2"]
    steps = 4 if quick else 5
    m = mc(ids, expired)
    res = tlc_parallel([
        ("mc", dict(module="MCStore", cfg_text=cfg(steps + 3, "none"), name="store-mc", extra_files=m, deadlock=False, workers=8, timeout=1500)),
        ("gen", dict(module="MCStore", cfg_text=cfg(steps, "edge", props=False), name="store-gen", extra_files=m, deadlock=False, workers=8, timeout=1500)),
        ("sim", dict(module="MCStore", cfg_text=cfg(12 if quick else 25, "final", view=False, props=False), name="store-sim", extra_files=m, deadlock=False,
                     workers=1, simulate=60 if quick else 1500, depth=60, tseed=seed() * 31 + 7)),
    ], par=3)
    chk.add_tlc("exhaustive", need_ok(res["mc"], "Store exhaustive"))
    g = need_ok(res["gen"], "Store generator")
    s = need_ok(res["sim"], "Store simulate")
    chk.add_tlc("edge behaviours", g, {"random_deep": len(s.traces)})
    seen, hs = set(), []
    for h in g.traces + s.traces:
        k = json.dumps(h, sort_keys=True)
        if k not in seen:
            seen.add(k)
            hs.append(h)
    cap = 3600 if quick else 24000          # measured: about 40 behaviours per second on an idle 16-core machine, far fewer on a loaded one
    if len(hs) > cap:
        import random
        rng = random.Random(seed())
        crashy = [h for h in hs if any(st["op"].startswith("crash") or st["op"] == "pushboth" for st in h)]
        plain = [h for h in hs if h not in crashy] if len(hs) < 20000 else [h for h in hs if not any(st["op"].startswith("crash") or st["op"] == "pushboth" for st in h)]
        rng.shuffle(crashy)
        rng.shuffle(plain)
        hs = crashy[:cap // 2] + plain[:cap // 2]
    inp = write_input("c08.ndjson", [{"ids": ids, "expired": expired}] + hs)
    st = run_harness(chk, "store replay", "pkg/storage", FILES, "TestVerifC08Replay", env={"VERIF_IN": inp, "VERIF_PAR": 16},
                     timeout=2400 if quick else 7000, crash_key="store/process-crash")
    if st.get("histories") != len(hs):
        raise InfraError("replay incomplete: %s" % st)
    for need in ("op_crash-push", "op_crash-delete", "op_pushboth", "op_sweep", "op_reopen", "op_update"):
        if st.get(need, 0) == 0:
            raise InfraError("vacuous: no %s in the replayed behaviours" % need)
    chk.cov["traces_validated_against_impl"] = len(hs)
    chk.cov["evaluations"] = len(hs)
    chk.cov["distinct_nontrivial"] = len(hs)
    chk.cov["behaviours_generated"] = len(seen)
    return chk.finish()
