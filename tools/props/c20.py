"""C20 DTLSR forwards along a least-cost path of the known link-state graph."""
import os
from props.corecommon import *


def run(tier):
    chk = Check("C20", tier, "model_checking")
    quick = tier == "quick"
    chk.assumptions = ["link-state graphs over this node + 2 sending foreign nodes + 1 leaf, each link absent / live / lost one hour ago / lost ten "
                       "hours ago (abstract costs 0 / 1 / 10): own links all 16 combinations, foreign links over 3 (quick) or all 4 states, exhaustively",
                       "own links are set up through ReportPeerAppeared and loss times written into the algorithm's table (in-package) so that costs "
                       "are hours apart; foreign data arrives as real bundles carrying DTLSRBlocks through NotifyNewBundle",
                       "the reference distances are a Bellman-Ford computation in TLA+, independent of the dijkstra library used by the code; "
                       "any next hop on some minimum-cost path is accepted",
                       "unicast rule and release after hand-over: Core.tla behaviours with Algo = dtlsr, actions Learn (foreign link-state data) and "
                       "Recompute; graphs on up to 8 nodes are not enumerated (3 foreign nodes by simulation in thorough)"]
    chk.cov["rule"] = ("Dtlsr.tla enumerates graphs and computes, per destination, the set of admissible next hops; the real DTLSR computes its table "
                       "for each graph and every entry is compared (entry exists iff a path exists; next hop admissible). Update arrival orders "
                       "(<=3 updates, equal and distinct timestamps) likewise. Core.tla/dtlsr behaviours replayed for the forwarding rule.")
    mc = {"MCDtlsr.tla": '---- MODULE MCDtlsr ----\nEXTENDS Dtlsr\nMCF == {"a", "b"}\nMCL == {"z"}\nMCLS == {%s}\n====\n' % (
        '"absent", "live", "old"' if quick else '"absent", "live", "new", "old"')}
    cfg = lambda mode: 'SPECIFICATION Spec\nCONSTANTS\n Foreign <- MCF\n Leaves <- MCL\n LinkStates <- MCLS\n Mode = "%s"\nINVARIANTS Emit RouteIffHop\n' % mode
    res = tlc_parallel([("graphs", dict(module="MCDtlsr", cfg_text=cfg("graphs"), name="dtlsr-graphs", extra_files=mc, deadlock=False, workers=4, timeout=1500)),
                        ("updates", dict(module="MCDtlsr", cfg_text=cfg("updates"), name="dtlsr-updates", extra_files=mc, deadlock=False, workers=4))], par=2)
    g = need_ok(res["graphs"], "Dtlsr graphs")
    u = need_ok(res["updates"], "Dtlsr updates")
    chk.add_tlc("graphs", g)
    chk.add_tlc("update orders", u)
    cases = g.traces + u.traces
    inp = write_input("c20.ndjson", cases)
    st = run_harness(chk, "routing tables", "pkg/routing", FILES + ["routing/c20_dtlsr.go"], "TestVerifC20Dtlsr", env={"VERIF_IN": inp}, timeout=1500)
    if st.get("graphs") != len(g.traces) or st.get("routes_checked", 0) < 100:
        raise InfraError("vacuous or incomplete: %s" % st)
    # several convergence layers to one node: every node is served once
    recf = os.path.join(scratch("rec"), "c20-links.ndjson")
    st3 = run_harness(chk, "peer selection over parallel links", "pkg/routing", FILES + ["routing/c20_dtlsr.go"], "TestVerifC20Links", env={"VERIF_REC": recf}, timeout=600)
    lrecs = read_ndjson(recf)
    if len(lrecs) != st3.get("selections") or len(lrecs) < 100:
        raise InfraError("selection recorder incomplete: %s" % st3)
    chkmod = {"DtlsrCheck.tla": """---- MODULE DtlsrCheck ----
EXTENDS Dtlsr
CONSTANT RecFile
MCF == {"a"}
MCL == {"z"}
MCLS == {"absent", "live"}
Recs == ndJsonDeserialize(RecFile)
ASSUME \\A i \\in 1..Len(Recs) : LET p == SelectionProblems(Recs[i]) IN p = {} \\/ PrintT(<<"BAD", ToJson([i |-> i, problems |-> p])>>)
ASSUME PrintT(<<"CHECKED", ToJson([n |-> Len(Recs)])>>)
CheckSpec == Init /\\ [][FALSE]_c
====
"""}
    n3, bad3, results3 = check_records("DtlsrCheck", ' Foreign <- MCF\n Leaves <- MCL\n LinkStates <- MCLS\n Mode = "updates"', lrecs, name="dtlsrcheck", extra_files=chkmod)
    for r in results3:
        chk.add_tlc("selection records", r)
    for idx, problems in bad3:
        for p in problems:
            chk.violation("dtlsr/selection/" + p, "record judged by Dtlsr!SelectionProblems: " + json.dumps(lrecs[idx])[:400], lrecs[idx])
    P = ["p1", "p2", "p3"]
    fam = dict(peers=P, enabled=["Receive", "PeerUp", "PeerDown", "SetFail", "RetryTick", "Learn", "Recompute"],
               cat={"u1": attr("p3", "far", prev="p3"), "u2": attr("p1", "p2", prev="p1"), "l1": attr("p2", "bcast", prev="p2")})
    total, st2 = run_families(chk, "C20", [dict(name="unicast", fam=fam, algo="dtlsr", budget=1, steps=4 if quick else 6, sim=(100, 14) if quick else (2000, 20),
                                                cap=500 if quick else None)], tier)
    own_violations(chk, "C20")
    if st2.get("act_Learn", 0) == 0 or st2.get("act_Recompute", 0) == 0:
        raise InfraError("vacuous unicast replay")
    chk.cov["traces_validated_against_impl"] = len(cases) + total
    chk.cov["evaluations"] = len(cases) + total
    chk.cov["distinct_nontrivial"] = len(cases) + total
    chk.cov["routes_checked"] = st.get("routes_checked")
    chk.cov["exhaustive"] = True
    return chk.finish()
