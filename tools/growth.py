#!/usr/bin/env python3
import sys, os, importlib
sys.path.insert(0, os.path.dirname(os.path.abspath(__file__)))
import vlib


def main():
    if len(sys.argv) < 2:
        print("usage: growth <name> [quick|thorough]")
        sys.exit(2)
    name = sys.argv[1]
    tier = sys.argv[2] if len(sys.argv) > 2 else "quick"
    mod = importlib.import_module("growth." + name)
    vlib.main_wrapper(mod.run, "G-" + name, tier)


if __name__ == "__main__":
    main()
