"""C15 Status reports are truthful, correctly addressed and cannot cascade."""
from props.corecommon import *


def run(tier):
    chk = Check("C15", tier, "model_checking")
    quick = tier == "quick"
    chk.assumptions = ["status reports are collected from the bytes handed to mock convergence layers and from the pending store records, decoded, and "
                       "each is checked: administrative record without request flags, addressed to the subject's report-to, source on this node, "
                       "exact subject ID incl. fragment offset/length, time present iff requested, exactly one assertion",
                       "the set of (subject, status, reason) created at every event is compared with Core.tla, which emits a report only for an event "
                       "that happened in that step and was requested (reception also on behalf of an unsupported block's flag)"]
    chk.cov["rule"] = ("Core.tla behaviours over bundles with the request flags in combinations, time flag, administrative flag, local report-to, "
                       "fragments, crossed with the outcomes delivered / no agent / forwarded / all sends failed / expired / hop limit / "
                       "unsupported block with report, delete, remove flags.")
    P = ["p1", "p2"]
    ev = ["Receive", "PeerUp", "SetFail", "RetryTick"]
    all4 = ("rcpt", "fwd", "dlv", "del")
    f1 = dict(peers=P, enabled=ev, cat={"r1": attr("p1", "app", req=("dlv", "rcpt")), "r2": attr("p1", "noagent", req=("dlv", "del")), "r15": attr("p2", "self", req=("dlv", "del")),
                                       "r3": attr("p1", "far", req=("fwd", "rcpt", "del"), time=True)})
    f2 = dict(peers=P, enabled=ev, cat={"r4": attr("p1", "far", req=("del", "fwd"), hop=(2, 2)), "r5": attr("p1", "far", hasunk=True, unkf=("report",)),
                                       "r6": attr("p1", "far", req=all4, hasunk=True, unkf=("delete", "report"), time=True)})
    f3 = dict(peers=P, enabled=ev, cat={"r7": attr("p1", "app", admin=True), "r8": attr("p1", "far", req=all4, rptlocal=True, rptnoagent=True), "r13": attr("p2", "app", req=all4, rptlocal=True, rptalias=True), "r14": attr("p1", "far", prev="p1", req=all4, rptnone=True),
                                       "r9": attr("p1", "p2", req=("rcpt", "fwd"), frag=True), "r11": attr("p1", "far", admin=True, hasunk=True, unkf=("delete",))})
    f4 = dict(peers=P, enabled=ev + ["Advance", "CleanTick"], cat={"r10": attr("p1", "far", req=("del", "fwd"), life="short"), "r12": attr("p2", "app", req=("dlv",), time=True)})
    plans = []
    for a in (["epidemic", "dtlsr"] if quick else ALGOS):
        for i, f in enumerate((f1, f2, f3)):
            plans.append(dict(name="reports%d" % (i + 1), fam=f, algo=a, budget=3, steps=4 if quick else 5, sim=(20, 10) if quick else (300, 14),
                              cap=110 if quick else None, mc=not quick or (a == "epidemic" and i == 0)))
    for a in (["epidemic"] if quick else ALGOS):
        plans.append(dict(name="expiry", fam=f4, algo=a, budget=3, steps=4 if quick else 5, cap=50 if quick else 500, mc=False))
    total, st = run_families(chk, "C15", plans, tier)
    own_violations(chk, "C15")
    if st.get("expected_reports", 0) < 30:
        raise InfraError("vacuous: hardly any status reports expected")
    chk.cov["traces_validated_against_impl"] = total
    chk.cov["evaluations"] = total
    chk.cov["distinct_nontrivial"] = total
    chk.cov["status_reports_expected"] = st.get("expected_reports")
    return chk.finish()
