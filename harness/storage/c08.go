package storage

// C08: replay of Store.tla behaviours (incl. crash points in child processes and forced concurrent pushes).

import (
	"bytes"
	"encoding/json"
	"fmt"
	"io"
	"os"
	"os/exec"
	"path/filepath"
	"sort"
	"strings"
	"sync"
	"sync/atomic"
	"testing"
	"time"

	log "github.com/sirupsen/logrus"

	"github.com/dtn7/dtn7-go/pkg/bpv7"
)

var vsPartNames = []string{"f1", "f2", "f3"}

const vsPayloadLen = 30

// vsBundles: the whole bundle and its three fragments for (history tag, id). Deterministic in everything but "now".
type vsSet struct {
	whole bpv7.Bundle
	frags map[string]bpv7.Bundle
	ser   map[string][]byte // "" -> whole, "f1".. -> fragment
}

func vsSer(b bpv7.Bundle) []byte {
	var buf bytes.Buffer
	_ = b.WriteBundle(&buf)
	return buf.Bytes()
}

func vsMake(tag, id string, expired bool, base time.Time) vsSet {
	data := make([]byte, vsPayloadLen)
	for i := range data {
		data[i] = byte(i + len(id)*3)
	}
	ts := bpv7.NewCreationTimestamp(bpv7.DtnTimeFromTime(base), 0)
	life := uint64(24 * 3600 * 1000)
	if expired {
		ts = bpv7.NewCreationTimestamp(bpv7.DtnTimeFromTime(time.Date(2001, 1, 1, 0, 0, 0, 0, time.UTC)), 0)
		life = 1000
	}
	pb := bpv7.NewPrimaryBlock(0, bpv7.MustNewEndpointID("dtn://dst/"), bpv7.MustNewEndpointID("dtn://"+tag+"-"+id+"/"), ts, life)
	hop := bpv7.NewCanonicalBlock(2, bpv7.ReplicateBlock, bpv7.NewHopCountBlock(9))
	pay := bpv7.NewCanonicalBlock(1, 0, bpv7.NewPayloadBlock(data))
	s := vsSet{whole: bpv7.MustNewBundle(pb, []bpv7.CanonicalBlock{hop, pay}), frags: map[string]bpv7.Bundle{}, ser: map[string][]byte{}}
	s.ser[""] = vsSer(s.whole)
	cuts := []int{0, 10, 20, vsPayloadLen}
	for k, name := range vsPartNames {
		fp := pb
		fp.BundleControlFlags |= bpv7.IsFragment
		fp.FragmentOffset = uint64(cuts[k])
		fp.TotalDataLength = vsPayloadLen
		fp.CRC = nil
		fp.SetCRCType(bpv7.CRC32)
		fb := bpv7.MustNewBundle(fp, []bpv7.CanonicalBlock{hop, bpv7.NewCanonicalBlock(1, 0, bpv7.NewPayloadBlock(data[cuts[k]:cuts[k+1]]))})
		s.frags[name] = fb
		s.ser[name] = vsSer(fb)
	}
	return s
}

type vsProj struct {
	Present  bool     `json:"present"`
	Pending  bool     `json:"pending"`
	Frag     bool     `json:"frag"`
	Parts    []string `json:"parts"`
	Complete bool     `json:"complete"`
}

func (p vsProj) key() string {
	ps := append([]string{}, p.Parts...)
	sort.Strings(ps)
	return fmt.Sprintf("%v|%v|%v|%v|%v", p.Present, p.Pending, p.Frag, ps, p.Complete)
}

type vsStep struct {
	Op      string              `json:"op"`
	Id      string              `json:"id"`
	Part    string              `json:"part"`
	Part2   string              `json:"part2"`
	Pending bool                `json:"pending"`
	Expires string              `json:"expires"`
	At      string              `json:"at"`
	Took    bool                `json:"took"`
	Exp     map[string][]vsProj `json:"exp"`
}

type vsWorld struct {
	tag     string
	dir     string
	s       *Store
	sets    map[string]vsSet
	expired map[string]bool
	last    map[string]BundleItem // the record of each id as a caller last read it
}

func (w *vsWorld) bundle(id, part string) bpv7.Bundle {
	if part == "" {
		return w.sets[id].whole
	}
	return w.sets[id].frags[part]
}

// observe projects the store through its public query API; problem != "" reports unreadable / altered content.
func (w *vsWorld) observe() (map[string]vsProj, string) {
	out := map[string]vsProj{}
	pend, err := w.s.QueryPending()
	if err != nil {
		return nil, "QueryPending: " + err.Error()
	}
	pendSet := map[string]bool{}
	for _, bi := range pend {
		pendSet[bi.Id] = true
	}
	npend := 0
	for id, set := range w.sets {
		bid := set.whole.ID()
		bi, err := w.s.QueryId(bid)
		p := vsProj{Parts: []string{}}
		if err != nil {
			if w.s.KnowsBundle(bid) {
				return nil, "KnowsBundle true but QueryId fails for " + id
			}
			out[id] = p
			continue
		}
		p.Present, p.Pending, p.Frag = true, bi.Pending, bi.Fragmented
		if !w.s.KnowsBundle(bid) {
			return nil, "KnowsBundle false for stored " + id
		}
		if bi.Pending != pendSet[bi.Id] {
			return nil, fmt.Sprintf("pending query disagrees with the record of %s (record %v, query %v)", id, bi.Pending, pendSet[bi.Id])
		}
		if bi.Pending {
			npend++
		}
		seen := map[string]bool{}
		for _, part := range bi.Parts {
			name := ""
			if bi.Fragmented {
				name = "?"
				for k, n := range vsPartNames {
					if part.FragmentOffset == uint64([]int{0, 10, 20}[k]) && part.TotalDataLength == vsPayloadLen {
						name = n
					}
				}
				if seen[name] {
					return nil, "fragment " + name + " recorded twice for " + id
				}
				seen[name] = true
				p.Parts = append(p.Parts, name)
			}
			raw, err := os.ReadFile(part.Filename)
			if err != nil {
				return nil, fmt.Sprintf("record %s part %q: file unreadable: %v", id, name, err)
			}
			want := set.ser[name]
			if len(raw) < len(want) || !bytes.Equal(raw[:len(want)], want) {
				return nil, fmt.Sprintf("record %s part %q does not read back byte-identical", id, name)
			}
			if !w.expired[id] {
				if lb, err := part.Load(); err != nil {
					return nil, fmt.Sprintf("record %s part %q: Load: %v", id, name, err)
				} else if !bytes.Equal(vsSer(lb), want) {
					return nil, fmt.Sprintf("record %s part %q: loaded bundle differs", id, name)
				}
			}
		}
		sort.Strings(p.Parts)
		if !w.expired[id] {
			p.Complete = bi.IsComplete()
			if p.Complete {
				lb, err := bi.Load()
				if err != nil {
					return nil, fmt.Sprintf("complete record %s does not load: %v", id, err)
				}
				if !bytes.Equal(vsSer(lb), set.ser[""]) {
					return nil, fmt.Sprintf("record %s loads to a different bundle", id)
				}
			}
		} else {
			p.Complete = !bi.Fragmented || len(p.Parts) == len(vsPartNames)
		}
		out[id] = p
	}
	if npend != len(pend) {
		return nil, fmt.Sprintf("pending query returns %d records, %d known ones are pending", len(pend), npend)
	}
	return out, ""
}

// ---- yield-point gate for concurrent pushes ----
var (
	vsGates    sync.Map // item id -> *vsGate
	vsHookOnce sync.Once
)

var vsSerialised int32

type vsGate struct {
	mu      sync.Mutex
	arrived int
	release chan struct{}
	reached int
}

func vsInstallHook() {
	vsHookOnce.Do(func() {
		VerifPointHook = func(point, key string) {
			if c := vsChildCrash; c != nil {
				if point == c.point && key == c.key {
					c.n--
					if c.n <= 0 {
						os.Exit(3)
					}
				}
				return
			}
			if point != "push:after-query" {
				return
			}
			if g, ok := vsGates.Load(key); ok {
				gate := g.(*vsGate)
				gate.mu.Lock()
				gate.arrived++
				gate.reached++
				if gate.arrived == 2 {
					close(gate.release)
				}
				gate.mu.Unlock()
				wait := 300 * time.Millisecond
				if atomic.LoadInt32(&vsSerialised) >= 3 {
					wait = 20 * time.Millisecond // pushes are evidently serialised by the store: do not wait long for a partner that cannot come
				}
				select {
				case <-gate.release:
					atomic.StoreInt32(&vsSerialised, 0)
				case <-time.After(wait):
					atomic.AddInt32(&vsSerialised, 1)
				}
			}
		}
	})
}

type vsCrash struct {
	point, key string
	n          int
}

var vsChildCrash *vsCrash

type vsChildJob struct {
	Dir   string `json:"dir"`
	Tag   string `json:"tag"`
	Id    string `json:"id"`
	Part  string `json:"part"`
	Op    string `json:"op"`
	Point string `json:"point"`
	Exp   bool   `json:"expired"`
	Base  int64  `json:"base"`
}

// TestVerifC08Child runs in a child process: performs one operation and is killed at the requested point.
func TestVerifC08Child(t *testing.T) {
	raw := os.Getenv("VERIF_CHILD")
	if raw == "" {
		t.Skip("not a child")
	}
	log.SetOutput(io.Discard)
	var j vsChildJob
	if err := json.Unmarshal([]byte(raw), &j); err != nil {
		os.Exit(4)
	}
	set := vsMake(j.Tag, j.Id, j.Exp, time.Unix(0, j.Base))
	s, err := vsOpen(j.Dir)
	if err != nil {
		fmt.Println("child: NewStore:", err)
		os.Exit(5)
	}
	b := set.whole
	if j.Part != "" {
		b = set.frags[j.Part]
	}
	vsInstallHook()
	vsChildCrash = &vsCrash{point: j.Point, key: b.ID().Scrub().String(), n: 1}
	switch j.Op {
	case "push":
		err = s.Push(b)
	case "delete":
		err = s.Delete(b.ID())
	}
	_ = s.Close()
	if err != nil {
		fmt.Println("child: operation returned an error before the crash point:", err)
		os.Exit(6)
	}
	os.Exit(0) // the point was not reached
}

func (w *vsWorld) child(j vsChildJob) (int, string) {
	raw, _ := json.Marshal(j)
	cmd := exec.Command(os.Args[0], "-test.run", "^TestVerifC08Child$")
	cmd.Env = append(os.Environ(), "VERIF_CHILD="+string(raw), "VERIF_OUT="+os.DevNull)
	out, err := cmd.CombinedOutput()
	if err == nil {
		return 0, string(out)
	}
	if ee, ok := err.(*exec.ExitError); ok {
		return ee.ExitCode(), string(out)
	}
	return -1, err.Error()
}

// vsOpen opens the store; the directory lock may still be held for an instant by a forked-but-not-yet-exec'ed child of a
// concurrently running history (flock follows duplicated descriptors), which is an artefact of this harness: retry.
func vsOpen(dir string) (s *Store, err error) {
	for i := 0; i < 400; i++ {
		if s, err = NewStore(dir); err == nil || !strings.Contains(err.Error(), "Cannot acquire directory lock") {
			return
		}
		time.Sleep(5 * time.Millisecond)
	}
	return
}

func vsReplay(idx int, ids []string, expiredIds []string, hist []vsStep) (status string) {
	tag := fmt.Sprintf("h%d", idx)
	dir := filepath.Join(vhScratch(), "store-"+tag)
	_ = os.RemoveAll(dir)
	defer os.RemoveAll(dir)
	base := time.Now()
	w := &vsWorld{tag: tag, dir: dir, sets: map[string]vsSet{}, expired: map[string]bool{}, last: map[string]BundleItem{}}
	for _, e := range expiredIds {
		w.expired[e] = true
	}
	for _, id := range ids {
		w.sets[id] = vsMake(tag, id, w.expired[id], base)
	}
	var err error
	if w.s, err = NewStore(dir); err != nil {
		vhEmit(vhRec{"k": "infra", "v": "NewStore: " + err.Error()})
		return "infra"
	}
	defer func() {
		if w.s != nil {
			_ = w.s.Close()
		}
	}()
	viol := func(n int, key, desc string, extra vhRec) {
		r := vhRec{"ids": ids, "expired_ids": expiredIds, "history": hist[:n+1]}
		for k, v := range extra {
			r[k] = v
		}
		vhViol(key, fmt.Sprintf("step %d (%s %s %s): %s", n, hist[n].Op, hist[n].Id, hist[n].Part, desc), r)
	}
	var pendingCrash *vsStep
	completed := false            // the operation that was to be killed returned success without ever reaching the point where it writes
	var lastObs map[string]vsProj // the map as observed after the previous step
	for n := range hist {
		s := hist[n]
		var opErr error
		switch s.Op {
		case "push":
			opErr = w.s.Push(w.bundle(s.Id, s.Part))
			if bi, err := w.s.QueryId(w.sets[s.Id].whole.ID()); err == nil {
				w.last[s.Id] = bi
			}
		case "pushboth":
			key := w.sets[s.Id].whole.ID().Scrub().String()
			gate := &vsGate{release: make(chan struct{})}
			vsGates.Store(key, gate)
			var wg sync.WaitGroup
			errs := make([]error, 2)
			for k, part := range []string{s.Part, s.Part2} {
				wg.Add(1)
				go func(k int, part string) {
					defer wg.Done()
					errs[k] = w.s.Push(w.bundle(s.Id, part))
				}(k, part)
			}
			wg.Wait()
			vsGates.Delete(key)
			if gate.reached == 0 {
				vhEmit(vhRec{"k": "infra", "v": "yield point push:after-query was not reached (hook removed?)"})
				return "infra"
			}
			for _, e := range errs {
				if e != nil {
					opErr = e
				}
			}
		case "update":
			bi, err := w.s.QueryId(w.sets[s.Id].whole.ID())
			stale := false
			if err != nil {
				// the record is gone: a caller that read it earlier and writes its copy back now (read-modify-write of the routing
				// code racing with a delete or the cleaner) must not bring it back; an error is the expected answer
				old, had := w.last[s.Id]
				if !had {
					break
				}
				bi, stale = old, true
			}
			bi.Pending = s.Pending
			if s.Expires == "past" {
				bi.Expires = time.Now().Add(-time.Hour)
			} else {
				bi.Expires = time.Now().Add(24 * time.Hour)
			}
			if bi.Properties == nil {
				bi.Properties = map[string]interface{}{}
			}
			bi.Properties["verif/n"] = n
			opErr = w.s.Update(bi)
			if stale {
				opErr = nil
			} else {
				w.last[s.Id] = bi
			}
		case "delete":
			opErr = w.s.Delete(w.sets[s.Id].whole.ID())
		case "sweep":
			w.s.DeleteExpired()
		case "reopen":
			if w.s != nil {
				if err := w.s.Close(); err != nil {
					opErr = err
				}
			}
			w.s = nil
			var err error
			if w.s, err = vsOpen(dir); err != nil {
				viol(n, "store/reopen-fails", "store cannot be opened again: "+err.Error(), nil)
				return "viol"
			}
		case "crash-push", "crash-delete":
			if err := w.s.Close(); err != nil {
				viol(n, "store/close-error", "Close before the crash step failed: "+err.Error(), nil)
				return "viol"
			}
			w.s = nil
			op, point := "push", "push:"+s.At
			if s.Op == "crash-delete" {
				op, point = "delete", "delete:"+s.At
			}
			rc, out := w.child(vsChildJob{Dir: dir, Tag: tag, Id: s.Id, Part: s.Part, Op: op, Point: point, Exp: w.expired[s.Id], Base: base.UnixNano()})
			if rc == 6 {
				// the operation the model says writes something gave up with an error (before the point at which it was to be killed)
				viol(n, "store/"+op+"/error", "operation returned an error: "+strings.TrimSpace(out), nil)
				return "viol"
			}
			completed = rc == 0
			if rc != 3 && rc != 0 {
				vhEmit(vhRec{"k": "infra", "v": fmt.Sprintf("crash point %s not reached in child (rc=%d): %s", point, rc, out)})
				return "infra"
			}
			cp := s
			pendingCrash = &cp
			continue
		default:
			vhEmit(vhRec{"k": "infra", "v": "unknown op " + s.Op})
			return "infra"
		}
		if opErr != nil {
			viol(n, "store/"+s.Op+"/error", "operation returned an error: "+opErr.Error(), nil)
			return "viol"
		}
		obs, problem := w.observe()
		if problem != "" {
			key := "store/" + s.Op + "/unreadable"
			if pendingCrash != nil {
				key = "store/" + pendingCrash.Op + "-" + pendingCrash.At + "/unreadable-after-restart"
			}
			viol(n, key, problem, nil)
			return "viol"
		}
		if pendingCrash != nil && completed && lastObs != nil && obs[pendingCrash.Id].key() == lastObs[pendingCrash.Id].key() {
			// an operation that writes (the model says so) came back with success, but without passing the point at which the index
			// entry is written - and the map does not show it
			viol(n, "store/"+pendingCrash.Op+"/acknowledged-not-recorded",
				fmt.Sprintf("%s of %s %s returned success without writing the index entry; record is %+v as before", pendingCrash.Op, pendingCrash.Id, pendingCrash.Part, obs[pendingCrash.Id]), nil)
			return "viol"
		}
		if pendingCrash != nil {
			// after the restart: the killed operation took effect or not; everything else untouched
			for id, allowed := range pendingCrash.Exp {
				ok := false
				for _, a := range allowed {
					if a.key() == obs[id].key() {
						ok = true
					}
				}
				if !ok {
					cls := "other-record-changed"
					if id == pendingCrash.Id {
						cls = "not-atomic"
					}
					viol(n, "store/"+pendingCrash.Op+"-"+pendingCrash.At+"/"+cls,
						fmt.Sprintf("after kill at %s and restart, record %s is %+v; allowed %+v", pendingCrash.At, id, obs[id], allowed), nil)
					return "viol"
				}
			}
			pendingCrash = nil
			lastObs = obs
			// TLC continued with one of the two outcomes; if reality took the other one this history ends here (the twin covers it)
			for id, allowed := range s.Exp {
				if len(allowed) != 1 || allowed[0].key() != obs[id].key() {
					return "twin"
				}
			}
			continue
		}
		for id, allowed := range s.Exp {
			if len(allowed) != 1 {
				vhEmit(vhRec{"k": "infra", "v": "expected a single projection"})
				return "infra"
			}
			if allowed[0].key() != obs[id].key() {
				key := "store/" + s.Op + "/projection"
				if s.Op == "pushboth" {
					key = "store/pushboth/lost-fragment"
				}
				viol(n, key, fmt.Sprintf("record %s: expected %+v, observed %+v", id, allowed[0], obs[id]), vhRec{"observed": obs})
				return "viol"
			}
		}
		lastObs = obs
	}
	return "ok"
}

func TestVerifC08Replay(t *testing.T) {
	log.SetOutput(io.Discard)
	vsInstallHook()
	var cfg struct {
		Ids     []string `json:"ids"`
		Expired []string `json:"expired"`
	}
	var items [][]byte
	first := true
	if err := vhLines(os.Getenv("VERIF_IN"), func(b []byte) {
		if first {
			first = false
			if err := json.Unmarshal(b, &cfg); err != nil {
				t.Fatal(err)
			}
			return
		}
		items = append(items, b)
	}); err != nil {
		t.Fatal(err)
	}
	only := vhEnvInt("VERIF_ONLY", -1)
	skip := vhSkipSet()
	var mu sync.Mutex
	st := map[string]int{}
	vhParallel(vhEnvInt("VERIF_PAR", 8), items, func(idx int, item []byte) {
		if (only >= 0 && idx != only) || skip[idx] {
			return
		}
		var hist []vsStep
		if err := json.Unmarshal(item, &hist); err != nil {
			vhEmit(vhRec{"k": "infra", "v": err.Error()})
			return
		}
		vhBegin(idx, only, item)
		status := vsReplay(idx, cfg.Ids, cfg.Expired, hist)
		vhEnd(idx)
		mu.Lock()
		st["histories_"+status]++
		st["steps"] += len(hist)
		for _, s := range hist {
			st["op_"+s.Op]++
		}
		if idx%2500 == 11 {
			vhSample(vhRec{"history": json.RawMessage(item)})
		}
		mu.Unlock()
	})
	for k, n := range st {
		vhStat(k, n)
	}
	vhStat("histories", len(items))
	vhDone()
}
