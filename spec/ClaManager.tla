--------------------------- MODULE ClaManager ---------------------------
(* Reference state machine of pkg/cla Manager + convergenceElem (property C16).           *)
(* One action per public call / handler case of the implementation:                        *)
(*   Register, Unregister, Restart (= Unregister;Register), Tick (activateTicker case),    *)
(*   PeerGone (PeerDisappeared case of the handler), Close.                                *)
(* The environment chooses the outcome of every adapter Start call.                        *)
(* Deviation from the code as found (DESIGN.md section 8 #14): a failed start never takes  *)
(* the retry budget below zero, because a negative budget *means* "active".                *)
EXTENDS Integers, Sequences, FiniteSets, TLC, Json

CONSTANTS
  Addr,        \* set of adapter addresses (strings)
  NInst,       \* instances per address 1..NInst (two objects with the same Address())
  Budget,      \* Manager.queueTtl
  Perm,        \* subset of Addr: IsPermanent() adapters
  Kind,        \* [Addr -> {"S","R"}] sender or receiver
  Loop,        \* [Addr -> Addr \cup {"none"}]: receiver whose endpoint equals this sender's peer endpoint
  MaxSteps,    \* bound on history length
  EmitMode     \* "none": no history variable (exhaustive checking); "edge": print the history of every
               \* generated transition (with VIEW = View: one behaviour per edge of the reduced state graph);
               \* "final": print histories of length MaxSteps (all of them in BFS, random ones with -simulate)

Record == EmitMode # "none"
Res == {"ok", "failRetry", "failNoRetry"}
Inst == 1..NInst

VARIABLES
  el,      \* [Addr -> [present: BOOLEAN, inst: 0..NInst, ttl: -1..Budget]]  the manager's convs map
  run,     \* [Addr -> [Inst -> BOOLEAN]]  adapter object currently started
  nstart,  \* [Addr -> [Inst -> Nat]]  Start() calls seen by the adapter object
  nclose,  \* [Addr -> [Inst -> Nat]]  Close() calls seen by the adapter object
  closed,  \* Manager.Close() was called
  steps,
  hist

vars == <<el, run, nstart, nclose, closed, steps, hist>>

Absent == [present |-> FALSE, inst |-> 0, ttl |-> 0]

IsActive(e) == e.present /\ e.ttl < 0
Active == {a \in Addr : IsActive(el[a])}
ActiveOf(e) == {a \in Addr : IsActive(e[a])}

Init ==
  /\ el = [a \in Addr |-> Absent]
  /\ run = [a \in Addr |-> [i \in Inst |-> FALSE]]
  /\ nstart = [a \in Addr |-> [i \in Inst |-> 0]]
  /\ nclose = [a \in Addr |-> [i \in Inst |-> 0]]
  /\ closed = FALSE
  /\ steps = 0
  /\ hist = <<>>

-----------------------------------------------------------------------------
(* The effect of convergenceElem.activate on one element, as a pure function.  *)
(* Returns [e |-> new element, started |-> Start() was called, ok, keep].      *)
ActivateFn(a, e, res) ==
  IF e.ttl < 0 THEN [e |-> e, started |-> FALSE, ok |-> FALSE, keep |-> FALSE]  \* already active: (false,false)
  ELSE IF e.ttl = 0 /\ a \notin Perm
       THEN [e |-> e, started |-> FALSE, ok |-> FALSE, keep |-> FALSE]
  ELSE CASE res = "ok"          -> [e |-> [e EXCEPT !.ttl = -1], started |-> TRUE, ok |-> TRUE, keep |-> TRUE]
         [] res = "failRetry"   -> [e |-> [e EXCEPT !.ttl = IF e.ttl > 0 THEN e.ttl - 1 ELSE 0],
                                    started |-> TRUE, ok |-> FALSE, keep |-> TRUE]
         [] res = "failNoRetry" -> [e |-> [e EXCEPT !.ttl = 0], started |-> TRUE, ok |-> FALSE, keep |-> FALSE]

(* State after Register(a, i) with scripted start result res, from (e0, r0, s0). *)
RegisterFn(a, i, res, e0, r0, s0) ==
  LET cur == e0[a]
      ce  == IF cur.present THEN cur ELSE [present |-> TRUE, inst |-> i, ttl |-> Budget]
      lp  == Kind[a] = "S" /\ Loop[a] # "none" /\ IsActive(e0[Loop[a]])
      act == ActivateFn(a, ce, res)
  IN IF closed \/ (cur.present /\ cur.ttl < 0) \/ lp
     THEN [e |-> e0, r |-> r0, s |-> s0]
     ELSE [e |-> IF cur.present \/ act.keep THEN [e0 EXCEPT ![a] = act.e] ELSE e0,
           r |-> IF act.ok THEN [r0 EXCEPT ![a][ce.inst] = TRUE] ELSE r0,
           s |-> IF act.started THEN [s0 EXCEPT ![a][ce.inst] = @ + 1] ELSE s0]

(* State after Unregister(a, i) from (e0, r0, c0). *)
UnregisterFn(a, i, e0, r0, c0) ==
  LET cur == e0[a] IN
  IF ~cur.present \/ cur.inst # i
  THEN [e |-> e0, r |-> r0, c |-> c0]
  ELSE [e |-> [e0 EXCEPT ![a] = Absent],
        r |-> IF cur.ttl < 0 THEN [r0 EXCEPT ![a][i] = FALSE] ELSE r0,
        c |-> IF cur.ttl < 0 THEN [c0 EXCEPT ![a][i] = @ + 1] ELSE c0]

Exp(e, r, s, c) == [active |-> ActiveOf(e), starts |-> s, closes |-> c, running |-> r]

Log(rec) ==
  /\ steps' = steps + 1
  /\ hist' = IF Record THEN Append(hist, rec) ELSE hist
  /\ (EmitMode = "edge") => PrintT(<<"TRACE", ToJson(hist')>>)

-----------------------------------------------------------------------------
Register(a, i, res) ==
  /\ steps < MaxSteps
  /\ LET n == RegisterFn(a, i, res, el, run, nstart) IN
     /\ el' = n.e /\ run' = n.r /\ nstart' = n.s
     /\ UNCHANGED <<nclose, closed>>
     /\ Log([act |-> "Register", a |-> a, i |-> i, res |-> res, exp |-> Exp(n.e, n.r, n.s, nclose)])

Unregister(a, i) ==
  /\ steps < MaxSteps
  /\ LET n == UnregisterFn(a, i, el, run, nclose) IN
     /\ el' = n.e /\ run' = n.r /\ nclose' = n.c
     /\ UNCHANGED <<nstart, closed>>
     /\ Log([act |-> "Unregister", a |-> a, i |-> i, exp |-> Exp(n.e, n.r, nstart, n.c)])

Restart(a, i, res) ==
  /\ steps < MaxSteps
  /\ LET u == UnregisterFn(a, i, el, run, nclose)
         n == RegisterFn(a, i, res, u.e, u.r, nstart) IN
     /\ el' = n.e /\ run' = n.r /\ nstart' = n.s /\ nclose' = u.c
     /\ UNCHANGED closed
     /\ Log([act |-> "Restart", a |-> a, i |-> i, res |-> res, exp |-> Exp(n.e, n.r, n.s, u.c)])

(* PeerDisappeared sent by the running adapter object of address a. *)
PeerGone(a, res) ==
  /\ steps < MaxSteps
  /\ ~closed
  /\ IsActive(el[a])
  /\ LET i == el[a].inst
         u == UnregisterFn(a, i, el, run, nclose)
         n == RegisterFn(a, i, res, u.e, u.r, nstart) IN
     /\ el' = n.e /\ run' = n.r /\ nstart' = n.s /\ nclose' = u.c
     /\ UNCHANGED closed
     /\ Log([act |-> "PeerGone", a |-> a, i |-> i, res |-> res, exp |-> Exp(n.e, n.r, n.s, u.c)])

(* activateTicker case: one activate per inactive element; (false,false) => forgotten. *)
Tick(rf) ==
  /\ steps < MaxSteps
  /\ ~closed
  /\ LET actf == [a \in Addr |-> ActivateFn(a, el[a], rf[a])]
         todo == {a \in Addr : el[a].present /\ el[a].ttl >= 0}
         e2 == [a \in Addr |-> IF a \in todo
                               THEN (IF actf[a].ok \/ actf[a].keep THEN actf[a].e ELSE Absent)
                               ELSE el[a]]
         r2 == [a \in Addr |-> IF a \in todo /\ actf[a].ok THEN [run[a] EXCEPT ![el[a].inst] = TRUE] ELSE run[a]]
         s2 == [a \in Addr |-> IF a \in todo /\ actf[a].started THEN [nstart[a] EXCEPT ![el[a].inst] = @ + 1] ELSE nstart[a]]
     IN /\ el' = e2 /\ run' = r2 /\ nstart' = s2
        /\ UNCHANGED <<nclose, closed>>
        /\ Log([act |-> "Tick", rf |-> rf, exp |-> Exp(e2, r2, s2, nclose)])

Close ==
  /\ steps < MaxSteps
  /\ ~closed
  /\ LET e2 == [a \in Addr |-> Absent]
         r2 == [a \in Addr |-> [i \in Inst |-> FALSE]]
         c2 == [a \in Addr |-> [i \in Inst |-> IF IsActive(el[a]) /\ el[a].inst = i THEN nclose[a][i] + 1 ELSE nclose[a][i]]]
     IN /\ el' = e2 /\ run' = r2 /\ nclose' = c2 /\ closed' = TRUE
        /\ UNCHANGED nstart
        /\ Log([act |-> "Close", exp |-> Exp(e2, r2, nstart, c2)])

Next ==
  \/ \E a \in Addr, i \in Inst, res \in Res : Register(a, i, res) \/ Restart(a, i, res)
  \/ \E a \in Addr, i \in Inst : Unregister(a, i)
  \/ \E a \in Addr, res \in Res : PeerGone(a, res)
  \/ \E rf \in [Addr -> Res] : Tick(rf)
  \/ Close

Spec == Init /\ [][Next]_vars

-----------------------------------------------------------------------------
(* Properties (C16) *)

TypeOK ==
  /\ \A a \in Addr : el[a].ttl \in -1..Budget /\ el[a].inst \in 0..NInst
  /\ closed \in BOOLEAN

\* listed active exactly while the most recent start succeeded and it was not stopped since
ActiveIffRunning ==
  \A a \in Addr : \A i \in Inst :
     run[a][i] <=> (IsActive(el[a]) /\ el[a].inst = i)

\* an element that is not running never has a negative budget
BudgetNonNegative == \A a \in Addr : el[a].present /\ ~run[a][el[a].inst] => el[a].ttl >= 0

\* Close() calls never exceed successful starts; after Manager.Close everything started was closed once
CloseOnce ==
  /\ \A a \in Addr, i \in Inst : nclose[a][i] <= nstart[a][i]
  /\ closed => \A a \in Addr, i \in Inst : ~run[a][i]

\* duplicate registration keeps a single running instance per address
SingleInstance == \A a \in Addr : Cardinality({i \in Inst : run[a][i]}) <= 1

\* a non-permanent element whose budget is used up does not survive a tick; a permanent one is always started
TickRule ==
  [][ (\E rf \in [Addr -> Res] : Tick(rf)) =>
        \A a \in Addr :
           (el[a].present /\ el[a].ttl >= 0) =>
              IF a \in Perm \/ el[a].ttl > 0
              THEN nstart'[a][el[a].inst] = nstart[a][el[a].inst] + 1
              ELSE ~el'[a].present /\ nstart'[a] = nstart[a] ]_vars

\* generator: print every maximal history
Emit == (EmitMode = "final" /\ steps = MaxSteps) => PrintT(<<"TRACE", ToJson(hist)>>)

View == <<el, run, nstart, nclose, closed, steps>>
=============================================================================
