"""Shared by the Core-based properties: Core.tla configurations (scenario families), replay on a real routing.Core."""
import json, os, re
from vlib import *

FILES = ["common/vh.go", "routing/core_world.go", "routing/core_replay.go"]
ALGOS = ["epidemic", "spray", "binary_spray", "prophet", "dtlsr"]


def attr(origin, dst, prev="none", life="long", clockless=False, tsg=0, req=(), admin=False, rptlocal=False, hop=(), hasunk=False, unkf=(), copies=0, time=False, frag=False, rptalias=False, about="", rkind="", lsd=0, desc=False, unkmore=0, rptnone=False, age=0, oldts=False, anon=False, ownsrc=False, rptnoagent=False):
    return dict(rptnoagent=rptnoagent, ownsrc=ownsrc, about=about, rkind=rkind, lsd=lsd, desc=desc, unkmore=unkmore, rptnone=rptnone, age=age, oldts=oldts, anon=anon, origin=origin, dst=dst, prev=prev, life=life, clockless=clockless, tsg=tsg, req=list(req), admin=admin, rptlocal=rptlocal,
                hop=list(hop), hasunk=hasunk, unkf=list(unkf), copies=copies, time=time, frag=frag, rptalias=rptalias)


def tla_val(v):
    if isinstance(v, bool):
        return "TRUE" if v else "FALSE"
    if isinstance(v, int):
        return str(v)
    if isinstance(v, str):
        return '"%s"' % v
    if isinstance(v, (list, tuple)):
        return "<<" + ", ".join(tla_val(x) for x in v) + ">>"
    if isinstance(v, set):
        return "{" + ", ".join(tla_val(x) for x in sorted(v)) + "}"
    raise ValueError(v)


def mc_module(fam):
    def rec(a):
        f = dict(a)
        f["req"] = set(f["req"])
        f["unkf"] = set(f["unkf"])
        f.pop("time")
        f.pop("ownsrc")
        f.pop("frag")
        f.pop("rptalias")
        f.pop("rptnoagent")
        f.pop("lsd")
        f.pop("desc")
        f.pop("unkmore")
        f.pop("rptnone")
        f.pop("age")
        f.pop("oldts")
        f.pop("anon")
        return "[" + ", ".join("%s |-> %s" % (k, tla_val(v)) for k, v in f.items()) + "]"
    cat = fam["cat"]
    return {"MCCore.tla": "---- MODULE MCCore ----\nEXTENDS Core\nMCPeers == %s\nMCCat == %s\nMCAttr == (%s)\nMCEnabled == %s\nMCSensors == %s\nMCVecDests == %s\nMCVecLevels == %s\n====\n" % (
        tla_val(set(fam["peers"])), tla_val(set(cat)), " @@ ".join('"%s" :> %s' % (n, rec(a)) for n, a in cat.items()), tla_val(set(fam["enabled"])),
        tla_val(set(p for p in fam["peers"] if p.startswith("s"))),
        tla_val(set(fam.get("vecdests", list(fam["peers"]) + ["far", "bcast"]))), tla_val(set(fam.get("veclevels", [0, 1, 2, 3]))))}


def cfg_text(algo, budget, steps, mode, view=True):
    t = ('SPECIFICATION Spec\nCONSTANTS\n Peers <- MCPeers\n Cat <- MCCat\n Attr <- MCAttr\n Algo = "%s"\n Sensors <- MCSensors\n Budget = %d\n Enabled <- MCEnabled\n VecDests <- MCVecDests\n VecLevels <- MCVecLevels\n'
         ' MaxSteps = %d\n EmitMode = "%s"\nINVARIANTS NoSilentLoss CopiesInRange Conservation DistinctIds SensorsDirectOnly Emit\n' % (algo, budget, steps, mode))
    if view:
        t += "VIEW SView\n"
    return t


BASIC = ["Submit", "Receive", "PeerUp", "PeerDown", "SetFail", "RetryTick"]


def run_families(chk, prop, plans, tier, max_hist=None):
    """plans: list of dicts(name, fam, algo, budget, steps, sim=(n, depth)). Generates behaviours with TLC and replays them."""
    import random
    jobs = []
    for i, pl in enumerate(plans):
        m = mc_module(pl["fam"])
        base = dict(module="MCCore", extra_files=m, deadlock=False, timeout=1500, heap="2g")
        if pl.get("mc", True):
            jobs.append(("mc%d" % i, dict(base, cfg_text=cfg_text(pl["algo"], pl["budget"], pl["steps"] + 2, "none"), name="core-mc-%d" % i)))
        if pl.get("allpaths"):
            # every behaviour of exactly this length (small families only): history-dependent defects hide from one-per-edge coverage
            jobs.append(("gen%d" % i, dict(base, cfg_text=cfg_text(pl["algo"], pl["budget"], pl["steps"], "final", view=False), name="core-gen-%d" % i)))
        else:
            jobs.append(("gen%d" % i, dict(base, cfg_text=cfg_text(pl["algo"], pl["budget"], pl["steps"], "edge"), name="core-gen-%d" % i)))
        if pl.get("sim"):
            n, depth = pl["sim"]
            jobs.append(("sim%d" % i, dict(base, cfg_text=cfg_text(pl["algo"], pl["budget"], depth, "final", view=False), name="core-sim-%d" % i,
                                           workers=1, simulate=n, depth=depth + 5, tseed=seed() * 101 + i)))
    import time as _t
    _t0 = _t.time()
    res = tlc_parallel([(l, dict(kw, workers=kw.get('workers', 2))) for l, kw in jobs], par=8)
    chk.cov.setdefault("phase_wall_s", {})["tlc"] = round(_t.time() - _t0, 1)
    lines = []
    total = 0
    rng = random.Random(seed())
    for i, pl in enumerate(plans):
        label = "%s/%s L=%d steps=%d" % (pl["name"], pl["algo"], pl["budget"], pl["steps"])
        if "mc%d" % i in res:
            chk.add_tlc("exhaustive " + label, need_ok(res["mc%d" % i], "Core exhaustive " + label))
        g = need_ok(res["gen%d" % i], "Core generator " + label)
        hs = list(g.traces)
        nsim = 0
        if pl.get("sim"):
            s = need_ok(res["sim%d" % i], "Core simulate " + label)
            hs += s.traces
            nsim = len(s.traces)
        seen, uniq = set(), []
        for h in hs:
            k = json.dumps(h, sort_keys=True)
            if k not in seen:
                seen.add(k)
                uniq.append(h)
        cap = pl.get("cap", max_hist)
        if cap is None:
            cap = 8000          # no family is replayed without a bound (about 20 behaviours per second on an idle 16-core machine)
        if cap and len(uniq) > cap:
            # prefer the longest behaviours (they contain the shorter ones as prefixes), then a seeded sample
            score = pl.get("prefer", lambda h: 0)
            uniq.sort(key=lambda h: (-score(h), -len(h)))
            head = uniq[:cap // 2]
            rest = uniq[cap // 2:]
            rng.shuffle(rest)
            uniq = head + rest[:cap - len(head)]
        chk.add_tlc("behaviours " + label, g, {"random_deep": nsim, "replayed": len(uniq)})
        lines.append({"cfg": {"prop": prop, "algo": pl["algo"], "budget": pl["budget"], "peers": pl["fam"]["peers"], "cat": pl["fam"]["cat"]}, "w": i})
        lines += [{"w": i, "h": h} for h in uniq]
        total += len(uniq)
    if total == 0:
        raise InfraError("no behaviours generated")
    inp = write_input("core-%s.ndjson" % prop, lines)
    _t1 = _t.time()
    chk.cov["phase_wall_s"]["digest"] = round(_t1 - _t0 - chk.cov["phase_wall_s"]["tlc"], 1)
    st = run_harness(chk, "core replay", "pkg/routing", FILES, "TestVerifCoreReplay", env={"VERIF_IN": inp, "VERIF_PAR": 16},
                     timeout=3000, crash_key=prop + ":core/process-crash")
    chk.cov["phase_wall_s"]["replay"] = round(_t.time() - _t1, 1)
    if st.get("histories") != total:
        raise InfraError("replay incomplete: %s" % st)
    if st.get("histories_timing", 0) > 0.2 * total:
        raise InfraError("too many behaviours abandoned for timing (machine overloaded): %s" % st)
    if st.get("histories_infra", 0) > 0:
        raise InfraError("replay had infrastructure failures: %s" % st)
    return total, st


def own_violations(chk, prop):
    """The shared replay reports violations tagged with the property they belong to; keep those of this check only."""
    keep = []
    other = {}
    for v in chk.violations:
        p, _, key = v["key"].partition(":")
        if not re.fullmatch(r"(C\d\d|none)(\+C\d\d)*", p):
            keep.append(v)              # reported by this check's own harness, not by the shared replay
        elif prop in p.split("+"):      # the divergence concerns this property (possibly others as well)
            v["key"] = key
            keep.append(v)
        else:
            o = other.setdefault(v["key"], {"count": 0, "sample": v["desc"][:400]})
            o["count"] += v["count"]
            if os.environ.get("VERIF_DEBUG"):
                with open(os.path.join(OUT, "other-" + re.sub(r"\W+", "_", v["key"]) + ".json"), "w") as fh:
                    json.dump(v, fh, indent=1)
    chk.violations = keep
    if other:
        chk.cov["divergences_belonging_to_other_properties"] = other
        for k, o in other.items():
            print("NOTE property=%s divergence from the model that does not concern this property (%d behaviours cut short there): %s: %s" % (
                prop, o["count"], k, o["sample"][:200]))
