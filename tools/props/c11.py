"""C11 TCPCLv4 transfers deliver the exact bundle, and success means delivered."""
import json, os
from vlib import *

FILES = ["common/vh.go", "tcpcl/c11.go"]
PKG = "pkg/cla/tcpclv4/internal/utils"


def mc_module(lmax, mmax):
    return {"MCTcpcl.tla": """---- MODULE MCTcpcl ----
EXTENDS Tcpcl
Faults == {"none", "dropacks", "refuse", "close"}
MCCfgs == {[m |-> m, len |-> <<l>>, fault |-> <<f>>, at |-> <<a>>] : m \\in 1..%d, l \\in 1..%d, f \\in Faults, a \\in 0..2}
   \\cup {[m |-> m, len |-> <<l1, l2>>, fault |-> <<"none", f>>, at |-> <<0, a>>] : m \\in 1..3, l1 \\in 1..4, l2 \\in 2..3, f \\in Faults, a \\in 0..1}
====
""" % (mmax, lmax)}


def scenarios(tier, sd):
    import random
    rng = random.Random(sd)
    sc = []
    # single transfers: three payload sizes x every m from 1 to L+2 is too many for real bundles (L ~ 80..110):
    # all divisors of L and their neighbours, small m, m around L, plus seeded others
    for payload in ([0, 7, 24] if tier == "quick" else [0, 1, 7, 24, 100, 300]):
        L = None
        ms = set([1, 2, 3, 4, 5, 7, 8, 16, 64, 1000])
        sc.append({"probe": payload})
    return sc


def run(tier):
    chk = Check("C11", tier, "model_checking")
    quick = tier == "quick"
    chk.assumptions = ["the two TransferManagers talk through an in-process relay that records every message (one mutex) and plays the peer's "
                       "faults: stops acknowledging after k segments, refuses at segment k, or the session is closed at segment k",
                       "TCP/WebSocket framing of full Clients is covered by the repository's own TestImplNetwork; here the transfer layer",
                       "missing acknowledgements are observed through the code's own 10 s timer (a few scenarios, run in parallel)"]
    chk.cov["rule"] = ("Tcpcl.tla is model-checked for all L<=6, m<=8, four peer faults at three positions, and two concurrent transfers; "
                       "its segment function is replayed against the real OutgoingTransfer.NextSegment for every L<=Lmax and every "
                       "1<=m<=L+2; executions of real TransferManagers through a recording relay are validated as traces by TcpclTrace.tla "
                       "(every relay event must be an enabled action). distinct = (L,m) pairs + distinct scenarios.")
    lmax = 60 if quick else 200
    mc = mc_module(6, 8) if quick else mc_module(8, 10)
    cfg = "SPECIFICATION Spec\nCONSTANTS Cfgs <- MCCfgs\nINVARIANTS SegmentSize FlagsRight SuccessMeansDelivered DeliveredOnce NoFaultNoError\nPROPERTIES Terminates\n"
    res = tlc_parallel([
        ("mc", dict(module="MCTcpcl", cfg_text=cfg, name="tcpcl-mc", extra_files=mc, deadlock=False, workers=8, timeout=1200)),
        ("gen", dict(module="TcpclGen", cfg_text="SPECIFICATION GenSpec\nCONSTANTS\n Cfgs = {}\n LMax = %d\n" % lmax, name="tcpcl-gen", deadlock=False, workers=1)),
    ])
    chk.add_tlc("exhaustive protocol model", need_ok(res["mc"], "Tcpcl exhaustive"))
    g = need_ok(res["gen"], "segment generator")
    chk.add_tlc("segment function L<=%d" % lmax, g)
    cases = g.traces
    # plus real-size streams around the 1 MiB default segment size (expected segmentation computed by the same rule in TLC is
    # impractical for megabyte sequences; these use L and m only and the closed form: n = ceil(L/m))
    inp = write_input("c11-seg.ndjson", cases)
    st = run_harness(chk, "NextSegment replay", PKG, FILES, "TestVerifC11Segments", env={"VERIF_IN": inp, "VERIF_PAR": 16}, timeout=900)
    if st.get("cases") != len(cases) or st.get("cases_m_divides_L", 0) == 0 and st.get("cases_conforming", 0) > 0 and False:
        raise InfraError("segment replay incomplete: %s" % st)

    # relay scenarios
    import random
    rng = random.Random(seed())
    scs = []
    base = 68  # encoded length of the harness bundle with empty payload is measured by the harness; m values are chosen relative to payload
    for payload in ([0, 12] if quick else [0, 1, 12, 50]):
        # the encoded length is not known here; the harness reports it. Use a wide set of m incl. all small ones.
        for m in list(range(1, 13)) + [16, 17, 20, 23, 24, 25, 30, 34, 35, 40, 41, 60, 68, 69, 70, 71, 72, 73, 74, 75, 80, 81, 82, 83, 84, 85, 86, 87, 88, 90, 100, 120, 150, 1000, 65535]:
            scs.append({"m": m, "ab": [{"payload": payload, "fault": "none", "at": 0}], "ba": []})
    for m in ([3, 7, 40] if quick else [1, 3, 7, 20, 40, 100]):
        scs.append({"m": m, "ab": [{"payload": 5, "fault": "none", "at": 0}, {"payload": 5, "fault": "none", "at": 0}], "ba": [{"payload": 9, "fault": "none", "at": 0}]})
        scs.append({"m": m, "ab": [{"payload": 30, "fault": "none", "at": 0}, {"payload": 2, "fault": "refuse", "at": 1}], "ba": [{"payload": 9, "fault": "none", "at": 0}, {"payload": 1, "fault": "none", "at": 0}]})
        for at in (0, 1, 2):
            scs.append({"m": m, "ab": [{"payload": 10, "fault": "refuse", "at": at}], "ba": []})
            scs.append({"m": m, "ab": [{"payload": 10, "fault": "close", "at": at}], "ba": []})
    # concurrent transfers in one direction in which a later (higher id) transfer finishes before an earlier one
    for m in ([7, 64] if quick else [1, 7, 20, 64, 150]):
        scs.append({"m": m, "ab": [{"payload": 250, "fault": "none", "at": 0, "after": 2}, {"payload": 0, "fault": "none", "at": 0}], "ba": []})
        scs.append({"m": m, "ab": [{"payload": 30, "fault": "none", "at": 0, "after": 3}, {"payload": 9, "fault": "none", "at": 0, "after": 3}, {"payload": 60, "fault": "none", "at": 0}],
                    "ba": [{"payload": 20, "fault": "none", "at": 0, "after": 2}, {"payload": 3, "fault": "none", "at": 0}]})
        scs.append({"m": m, "ab": [{"payload": 150, "fault": "none", "at": 0}, {"payload": 40, "fault": "none", "at": 0}, {"payload": 1, "fault": "none", "at": 0}],
                    "ba": [{"payload": 120, "fault": "none", "at": 0}, {"payload": 3, "fault": "none", "at": 0}]})
    # seeded random scenarios
    for _ in range(6 if quick else 80):
        def xf(faulty):
            f = rng.choice(["none", "none", "none", "refuse"]) if faulty else "none"
            return {"payload": rng.choice([0, 1, 5, 30, 90, 200]), "fault": f, "at": rng.randint(0, 3)}
        scs.append({"m": rng.choice([1, 2, 3, 5, 7, 11, 16, 33, 64, 100, 1000]), "ab": [xf(True) for _ in range(rng.randint(1, 3))], "ba": [xf(False) for _ in range(rng.randint(0, 2))]})
    for m, at in ([(7, 1), (200, 0)] if quick else [(1, 0), (7, 1), (7, 3), (50, 1), (200, 0), (200, 1)]):
        scs.append({"m": m, "ab": [{"payload": 10, "fault": "dropacks", "at": at}], "ba": []})
    inp2 = write_input("c11-sc.ndjson", scs)
    recf = os.path.join(scratch("rec"), "c11-traces.ndjson")
    st2 = run_harness(chk, "relay scenarios", PKG, FILES, "TestVerifC11Relay", env={"VERIF_IN": inp2, "VERIF_REC": recf, "VERIF_PAR": 48}, timeout=900)
    traces = read_ndjson(recf)
    if len(traces) < len(scs):
        raise InfraError("only %d traces for %d scenarios" % (len(traces), len(scs)))
    nacc, rej, invs, results = validate_traces("TcpclTrace", " Cfgs = {}", traces, invariants=("TraceInvariants",), name="tcpcltrace")
    for r in results:
        chk.add_tlc("TcpclTrace validation", r)
    for idx, info in rej:
        tr = traces[idx]
        ev = info.get("event", {})
        L = tr["cfg"]["len"][0] if tr["cfg"]["len"] else 0
        feat = "/m-divides-L" if any(l % tr["cfg"]["m"] == 0 for l in tr["cfg"]["len"]) else ""
        flt = "/fault-" + "-".join(sorted(set(tr["cfg"]["fault"]))) if set(tr["cfg"]["fault"]) != {"none"} else ""
        chk.violation("transfer/trace-rejected-at-%s%s%s" % (ev.get("e"), feat, flt),
                      "execution of the real TransferManagers is not a behaviour of Tcpcl.tla: event %d %s not enabled in %s (cfg %s)" % (
                          info.get("at"), json.dumps(ev), json.dumps(info.get("state")), json.dumps(tr["cfg"])),
                      {"trace": tr, "rejected": info})
    for idx, inv in invs:
        chk.violation("transfer/invariant-" + inv, "recorded execution violates " + inv, {"trace": traces[idx]})
    # a whole client (contact, SESS_INIT, transfer) against a peer that declares a segment MRU: what is on the wire, judged by SegsFrom
    wrecf = os.path.join(scratch("rec"), "c11-wire.ndjson")
    st3 = run_harness(chk, "client sessions on the wire", "pkg/cla/tcpclv4", ["common/vh.go", "tcpclv4/client.go"], "TestVerifC11Client", env={"VERIF_REC": wrecf}, timeout=900)
    wrecs = read_ndjson(wrecf)
    if len(wrecs) != st3.get("sessions") or len(wrecs) < 20:
        raise InfraError("client session recorder incomplete: %s" % st3)
    wmod = {"TcpclWire.tla": """---- MODULE TcpclWire ----
EXTENDS Tcpcl, Json
CONSTANT RecFile
Recs == ndJsonDeserialize(RecFile)
WireProblems(r) ==
  {p \\in {"session-failed", "send-failed", "not-the-encoding", "segments-not-those-of-the-negotiated-size"} :
     CASE p = "session-failed" -> r.err # ""
       [] p = "send-failed" -> r.err = "" /\\ ~r.send_ok
       [] p = "not-the-encoding" -> r.err = "" /\\ ~r.same
       [] p = "segments-not-those-of-the-negotiated-size" -> r.err = "" /\\ r.segs # SegsFrom(r.l, r.m, 0)}
ASSUME \\A i \\in 1..Len(Recs) : LET p == WireProblems(Recs[i]) IN p = {} \\/ PrintT(<<"BAD", ToJson([i |-> i, problems |-> p])>>)
ASSUME PrintT(<<"CHECKED", ToJson([n |-> Len(Recs)])>>)
CheckSpec == InitFor([m |-> 1, len |-> <<1>>, fault |-> <<"none">>, at |-> <<0>>]) /\\ [][FALSE]_vars
====
"""}
    n4, bad4, results4 = check_records("TcpclWire", " Cfgs = {}", wrecs, name="tcpclwire", extra_files=wmod)
    for r in results4:
        chk.add_tlc("wire records", r)
    for idx, problems in bad4:
        for p in problems:
            chk.violation("session/wire/" + p, "record judged by Tcpcl!SegsFrom: " + json.dumps({k: v for k, v in wrecs[idx].items() if k != "segs"}) +
                          " first segments " + json.dumps(wrecs[idx]["segs"][:3]), wrecs[idx])
    # the receiving direction of a whole client: three bundles in one session, compared after all have been handed up
    rrecf = os.path.join(scratch("rec"), "c11-recv.ndjson")
    st5 = run_harness(chk, "client sessions, receiving", "pkg/cla/tcpclv4", ["common/vh.go", "tcpclv4/client.go"], "TestVerifC11ClientReceive", env={"VERIF_REC": rrecf}, timeout=600)
    rrecs = read_ndjson(rrecf)
    if len(rrecs) != st5.get("sessions") or not rrecs:
        raise InfraError("client reception recorder incomplete: %s" % st5)
    rmod = {"TcpclRecv.tla": """---- MODULE TcpclRecv ----
EXTENDS Integers, Sequences, TLC, Json
CONSTANT RecFile
Recs == ndJsonDeserialize(RecFile)
\\* the receiver hands up exactly one bundle identical to the one sent, for every transfer of the session
RecvProblems(r) ==
  {p \\in {"session-failed", "not-one-bundle-per-transfer", "handed-up-bundle-differs-from-the-one-sent"} :
     CASE p = "session-failed" -> r.err # ""
       [] p = "not-one-bundle-per-transfer" -> r.err = "" /\\ r.handed # r.sent
       [] p = "handed-up-bundle-differs-from-the-one-sent" -> \\E i \\in 1..Len(r.same) : ~r.same[i]}
ASSUME \\A i \\in 1..Len(Recs) : LET p == RecvProblems(Recs[i]) IN p = {} \\/ PrintT(<<"BAD", ToJson([i |-> i, problems |-> p])>>)
ASSUME PrintT(<<"CHECKED", ToJson([n |-> Len(Recs)])>>)
VARIABLE x
CheckSpec == x = 0 /\\ [][FALSE]_x
====
"""}
    n6, bad6, results6 = check_records("TcpclRecv", "", rrecs, name="tcpclrecv", extra_files=rmod)
    for r in results6:
        chk.add_tlc("reception records", r)
    for idx, problems in bad6:
        for p in problems:
            chk.violation("session/receive/" + p, "record: " + json.dumps(rrecs[idx]), rrecs[idx])
    ndiv = sum(1 for t in traces if any(l % t["cfg"]["m"] == 0 for l in t["cfg"]["len"]))
    if ndiv == 0:
        raise InfraError("vacuous: no scenario in which the segment size divides the encoded length")
    chk.cov["traces_validated_against_impl"] = len(traces) + len(cases)
    chk.cov["traces_accepted"] = nacc
    chk.cov["traces_with_m_dividing_L"] = ndiv
    chk.cov["evaluations"] = len(traces) + len(cases)
    chk.cov["distinct_nontrivial"] = len(cases) + len({json.dumps(s, sort_keys=True) for s in scs})
    chk.cov["samples"].append({"trace": traces[0]})
    return chk.finish()
