package bbc

import (
	"bytes"
	"fmt"
	"math/rand"
	"testing"
)

func TestVerifC04Bbc(t *testing.T) {
	n := 0
	vhGuardSlack = 48 << 20 // the xz decoder allocates its 8 MiB dictionary (a constant of the sender's xz settings) for every stream
	rng := rand.New(rand.NewSource(vhSeed()))
	// fragments: every header byte pair with short payloads, and too short inputs
	for _, in := range [][]byte{{}, {1}, {1, 2}, {255, 255}, {0, 0, 0}} {
		in := in
		n++
		if p := vhGuard(len(in), func() { _, _ = ParseFragment(in) }); p != "" {
			vhViol("robust/bbc-fragment/"+vhClass(p), p, vhRec{"input": fmt.Sprintf("%x", in)})
		}
	}
	// transmissions: the reassembled payload is an xz stream; hostile ones: truncated, header bytes changed, garbage
	b := vbBundle("robust", 200)
	frs, err := vbTrain(9, b, 1000)
	if err != nil || len(frs) != 1 {
		t.Fatal("cannot build the base transmission")
	}
	xzs := frs[0].Payload
	try := func(payload []byte, note string) {
		n++
		p := vhGuard(len(payload), func() {
			it, err := NewIncomingTransmission(NewFragment(1, 1, true, true, false, payload))
			if err == nil {
				_, _ = it.Bundle()
			}
		})
		if p != "" {
			vhViol("robust/bbc-transmission/"+vhClass(p), fmt.Sprintf("IncomingTransmission.Bundle, %s: %s", note, p), vhRec{"payload": fmt.Sprintf("%x", payload[:minI(len(payload), 64)]), "note": note})
		}
	}
	for i := 0; i <= len(xzs); i++ {
		try(xzs[:i], fmt.Sprintf("xz stream truncated at %d", i))
	}
	for pos := 0; pos < len(xzs) && pos < 40; pos++ {
		for _, v := range []byte{0, 1, 0x7f, 0x80, 0xff} {
			m := append([]byte{}, xzs...)
			m[pos] = v
			try(m, fmt.Sprintf("xz byte %d := %#x", pos, v))
		}
	}
	for k := 0; k < 200; k++ {
		g := make([]byte, rng.Intn(300))
		rng.Read(g)
		try(g, "random bytes")
		try(append(append([]byte{}, xzs[:12]...), g...), "xz header followed by random bytes")
	}
	_ = bytes.Equal
	vhStat("inputs", n)
	vhDone()
}

func minI(a, b int) int {
	if a < b {
		return a
	}
	return b
}
