"""C07 Local delivery reaches exactly the registered recipients, once, and nobody else."""
import json, os
from vlib import *

FILES = ["common/vh.go", "agent/c07.go"]


def run(tier):
    chk = Check("C07", tier, "model_checking")
    quick = tier == "quick"
    chk.assumptions = ["agents: a real MuxAgent with a real RestAgent (HTTP via httptest), a real WebSocketAgent with WebSocketAgentConnector clients, the "
                       "ping agent and a plain agent; the hand-over is done the way routing.AgentManager.Deliver does it (refuse if no agent has the "
                       "endpoint, else pass a BundleMessage to the mux)",
                       "barrier: four rounds of a recipient-less message through the mux push earlier bundles through every agent and WebSocket client",
                       "'not transmitted to peers' and 'reported only if handed over' are checked at Core level by the C05/C15 replays "
                       "(local destinations never appear in transmissions; delivery report only on success)",
                       "concurrent deliver/fetch on one mailbox is forced in both orders through the verif yield points and judged by Agents!RaceProblems"]
    chk.cov["rule"] = ("Agents.tla (2 endpoints + plain + ping + unknown, 2 REST clients, 2 WebSocket clients) is model-checked; one behaviour per edge of "
                       "its reduced state graph plus random deep ones are replayed; after every operation mailboxes, WebSocket receptions, plain-agent "
                       "receptions, pongs, fetch results and the accepted/refused verdict are compared.")
    mc = {"MCAgents.tla": '---- MODULE MCAgents ----\nEXTENDS Agents\nMCEps == {"e1", "e2"}\nMCRC == {"r1", "r2"}\nMCWC == {"w1", "w2"}\n====\n'}
    cfg = lambda steps, mode, view=True: ('SPECIFICATION Spec\nCONSTANTS\n Eps <- MCEps\n RC <- MCRC\n WC <- MCWC\n PlainEp = "e2"\n PingEp = "ping"\n MaxSteps = %d\n'
                                          ' EmitMode = "%s"\nINVARIANTS MailboxSound WsSound Emit\n' % (steps, mode) + ("VIEW AView\n" if view else ""))
    steps = 4 if quick else 5
    res = tlc_parallel([
        ("mc", dict(module="MCAgents", cfg_text=cfg(steps + 2, "none"), name="agents-mc", extra_files=mc, deadlock=False, workers=6)),
        ("gen", dict(module="MCAgents", cfg_text=cfg(steps, "edge"), name="agents-gen", extra_files=mc, deadlock=False, workers=6)),
        ("sim", dict(module="MCAgents", cfg_text=cfg(14 if quick else 24, "final", view=False), name="agents-sim", extra_files=mc, deadlock=False,
                     workers=1, simulate=60 if quick else 1500, depth=40, tseed=seed() * 13 + 5)),
    ], par=3)
    chk.add_tlc("exhaustive", need_ok(res["mc"], "Agents exhaustive"))
    # design-level only (no code binding): the unbuffered channels between Core handler, AgentManager, MuxAgent, PingAgent and
    # handleChild cannot wait for each other in a cycle, also when pongs are addressed to local endpoints (TLC deadlock + liveness check)
    for i, reqs in enumerate(['<<"app", "ping", "remote">>', '<<"ping", "ping">>', '<<"app", "app", "app">>']):
        mm = {"MCMux.tla": "---- MODULE MCMux ----\nEXTENDS MuxChan\nMCReq == %s\n====\n" % reqs}
        r = need_ok(run_tlc("MCMux", "SPECIFICATION Spec\nCONSTANTS\n Requests <- MCReq\nPROPERTIES Quiesces\n", name="muxchan-%d" % i, extra_files=mm, workers=2, heap="1g"),
                    "MuxChan deadlock freedom")
        chk.add_tlc("MuxChan (channel-level, design only) " + reqs, r)
    g = need_ok(res["gen"], "Agents generator")
    s = need_ok(res["sim"], "Agents simulate")
    chk.add_tlc("behaviours", g, {"random_deep": len(s.traces)})
    seen, hs = set(), []
    for h in g.traces + s.traces:
        k = json.dumps(h, sort_keys=True)
        if k not in seen:
            seen.add(k)
            hs.append(h)
    if quick and len(hs) > 2500:
        import random
        rng = random.Random(seed())
        hs.sort(key=lambda h: -len(h))
        head, rest = hs[:1200], hs[1200:]
        rng.shuffle(rest)
        hs = head + rest[:1300]
    inp = write_input("c07.ndjson", hs)
    st = run_harness(chk, "agents replay", "pkg/agent", FILES, "TestVerifC07Replay", env={"VERIF_IN": inp, "VERIF_PAR": 16}, timeout=2400, crash_key="agents/process-crash")
    if st.get("histories") != len(hs):
        raise InfraError("replay incomplete: %s" % st)
    recf = os.path.join(scratch("rec"), "c07-race.ndjson")
    st2 = run_harness(chk, "deliver/fetch interleavings", "pkg/agent", FILES, "TestVerifC07Race", env={"VERIF_REC": recf}, timeout=600)
    recs = read_ndjson(recf)
    # judged by Agents!RaceProblems
    chkmod = {"AgentsCheck.tla": """---- MODULE AgentsCheck ----
EXTENDS Agents
CONSTANT RecFile
Recs == ndJsonDeserialize(RecFile)
ASSUME \\A i \\in 1..Len(Recs) : LET p == RaceProblems(Recs[i]) IN p = {} \\/ PrintT(<<"BAD", ToJson([i |-> i, problems |-> p])>>)
ASSUME PrintT(<<"CHECKED", ToJson([n |-> Len(Recs)])>>)
CheckSpec == Init /\\ [][FALSE]_vars
====
""", **mc}
    consts = ' Eps = {}\n RC = {}\n WC = {}\n PlainEp = "e2"\n PingEp = "ping"\n MaxSteps = 0\n EmitMode = "none"'
    n, bad, results = check_records("AgentsCheck", consts, recs, name="agentscheck", extra_files=chkmod, chunks=1)
    for r in results:
        chk.add_tlc("race records", r)
    for idx, problems in bad:
        for p in problems:
            chk.violation("agents/mailbox-race/%s/%s" % (p, recs[idx]["order"]), "forced interleaving judged by Agents!RaceProblems: " + json.dumps(recs[idx]), recs[idx])
    # at the level of the whole node: a client registers an endpoint while bundles for it are already stored (they were taken for
    # forwarding); the next dispatch hands each of them over once, reports it once and releases it
    from props import corecommon as cc
    latefam = dict(peers=["p1", "p2"], enabled=["Receive", "Submit", "PeerUp", "RetryTick", "Register", "Restart"],
                   cat={"m1": cc.attr("p1", "late", prev="p1", req=("dlv",)), "m2": cc.attr("app", "late"), "m3": cc.attr("p1", "app", prev="p1")})

    def after_register(h):
        acts = [st["act"] for st in h]
        if "Register" not in acts:
            return 0
        i = acts.index("Register")
        return (1 + len(h[i]["exp"]["stored"])) * sum(1 for a in acts[i + 1:] if a in ("RetryTick", "PeerUp", "Restart"))
    plans = [dict(name="late-registration", fam=latefam, algo=a, budget=3, steps=4 if quick else 5, sim=(400, 9) if quick else (6000, 12),
                  cap=160 if quick else 3000, mc=(a == "epidemic"), prefer=after_register) for a in (["epidemic"] if quick else ["epidemic", "spray", "dtlsr"])]
    total7, st7 = cc.run_families(chk, "C07", plans, tier)
    cc.own_violations(chk, "C07")
    if st7.get("act_Register", 0) == 0 or st7.get("expected_deliveries", 0) == 0:
        raise InfraError("vacuous late-registration replay: %s" % st7)
    chk.cov["traces_validated_against_impl"] = len(hs) + n + total7
    chk.cov["evaluations"] = len(hs) + n
    chk.cov["distinct_nontrivial"] = len(hs)
    chk.cov["yield_points_reached"] = st2.get("yield_points_reached")
    return chk.finish()
