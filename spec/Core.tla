------------------------------- MODULE Core -------------------------------
(* The bundle processing pipeline of routing.Core with its routing algorithms                     *)
(* (properties C05 C06 C13 C14 C15 C18, gate of C19, unicast rule of C20).                          *)
(*                                                                                                 *)
(* One action per event the node reacts to: Submit (application hands over a bundle), Receive      *)
(* (a peer delivers a bundle), PeerUp / PeerDown, SetFail (the environment decides that sends to a *)
(* peer fail from now on), RetryTick (pending_bundles cron job), CleanTick (clean_store cron job), *)
(* Advance (time passes: short-lived bundles run out), Restart (orderly Close + NewCore).          *)
(* The pipeline steps (dispatching, forward, localDelivery, bundleDeletion) are operators on a     *)
(* world record so that one event is one atomic action, like one iteration of the Core handler.    *)
(*                                                                                                 *)
(* The specification states the behaviour the properties demand. Where the code as found did        *)
(* something else, the difference is listed in DESIGN.md section 8 (each was repaired or recorded). *)
EXTENDS Integers, Sequences, FiniteSets, TLC, Json

CONSTANTS
  Peers,     \* names of neighbour nodes; peer p is node dtn://p/ and reachable through one (mock) CLA
  Cat,       \* names of the bundles of this scenario family
  Attr,      \* [Cat -> [origin, dst, prev, life, clockless, tsg, req, admin, rptlocal, hop, hasunk, unkf, copies]]
  Algo,      \* "epidemic" | "spray" | "binary_spray" | "prophet" | "dtlsr" | "mule" (sensor-mule wrapper around epidemic)
             \* | "mule_spray" | "mule_binary_spray" (sensor-mule wrapper around the spray-and-wait variants)
  Sensors,   \* mule: peers that are sensor nodes (only ever served by direct delivery)
  Budget,    \* spray-and-wait multiplicity L
  Enabled,   \* subset of action names this family explores
  VecDests,  \* prophet: the destinations summary vectors speak about in this family (all: Peers \cup {"far", "bcast"})
  VecLevels, \* prophet: the levels they advertise (all: 0..3)
  MaxSteps,
  EmitMode

(* Attr fields:
   origin   "app" (submitted by the local application, source dtn://node/app) or the peer that delivers it
   dst      a peer name (destination node dtn://p/x), "far" (no such neighbour), "app" (endpoint of the local agent),
            "noagent" (an endpoint on this node nobody registered), "self" (the node ID itself, dtn://node/: nobody registered it
            either), "bcast" (the DTLSR broadcast address),
            "late" (dtn://late/in: on another node name, registered by a local client only when action Register happens)
   prev     peer named in the previous-node block, or "none"
   life     "long" | "short" (runs out at Advance)
   clockless  creation time zero + bundle age block
   tsg      0, or a group number: bundles of one group share source and creation millisecond
   req      subset of {"rcpt","fwd","dlv","del"}: requested status reports
   admin    payload is an administrative record (a status report); about: the catalogue bundle it reports on ("" = a bundle unknown
            here), rkind: "received" | "forwarded" | "delivered" | "deleted"
   rptlocal report-to endpoint is on this node
   hop      <<>> or <<limit, count>>
   hasunk   the bundle carries a block of a type this node does not know; unkf: its flags, subset of {"report","delete","remove"}
   copies   0 or the value of a binary-spray block the bundle arrives with                                  *)

VARIABLES
  up,        \* connected peers
  failing,   \* peers to which a transmission fails
  st,        \* [Cat -> [known, pending, sent, seq]]   the persistent store (+ per-bundle routing memory kept in it)
  meta,      \* [Cat -> [has, copies, sent]]           spray-and-wait memory (volatile)
  own,       \* prophet: set of peers this node met since start (predictability P_init, else 0)
  peerv,     \* prophet: [Peers -> [Peers \cup {"far"} -> 0..3]] advertised predictability levels (2 = P_init)
  nbr,       \* dtlsr: peers that are or were neighbours since start
  table,     \* dtlsr: routing table of the last recomputation: set of <<destination, next hop>>
  via,       \* dtlsr: the peer whose link-state data says it is connected to node "far" ("none" if nobody)
  idk,       \* [group -> next sequence number] (volatile)
  used,      \* bundles already submitted
  late,      \* Advance happened: short-lived bundles are expired
  aged,      \* the bundles that were in the store when time advanced and have been there ever since
  lateReg,   \* a client has registered the endpoint "late" (dtn://late/in) by now; before, bundles for it are forwarded like any other
  steps, hist

vars == <<up, failing, st, meta, own, peerv, nbr, table, via, idk, used, late, aged, lateReg, steps, hist>>

NoRec == [known |-> FALSE, pending |-> FALSE, sent |-> {}, seq |-> 0]
NoMeta == [has |-> FALSE, copies |-> 0, sent |-> {}]
Groups == {Attr[b].tsg : b \in Cat}

Init ==
  /\ up = {} /\ failing = {}
  /\ st = [b \in Cat |-> NoRec]
  /\ meta = [b \in Cat |-> NoMeta]
  /\ own = {} /\ peerv = [p \in Peers |-> [d \in Peers \cup {"far", "bcast"} |-> 0]]
  /\ nbr = {} /\ table = {} /\ via = "none"
  /\ idk = [g \in Groups |-> 0]
  /\ used = {} /\ late = FALSE /\ aged = {} /\ lateReg = FALSE /\ steps = 0 /\ hist = <<>>

-----------------------------------------------------------------------------
(* world record threaded through the pipeline operators *)
World == [st |-> st, meta |-> meta, up |-> up, failing |-> failing, own |-> own, sends |-> {}, delivered |-> {}, reports |-> {}]

IsLocal(d) == d \in {"app", "noagent", "self"} \/ (d = "late" /\ lateReg)
(* a bundle with a creation time runs out at that time plus its lifetime, wherever it has been; one without (clock-less
   source) runs out by its age: the age it arrived with plus the time it has stayed here *)
Expired(b) == Attr[b].life = "short" /\ late /\ (Attr[b].clockless => b \in aged)
Wants(b, r) == r \in Attr[b].req /\ ~Attr[b].admin /\ ~Attr[b].rptlocal
Report(w, b, kind, reason) == [w EXCEPT !.reports = @ \cup {[b |-> b, kind |-> kind, reason |-> reason]}]
ReportIf(w, b, r, kind, reason) == IF Wants(b, r) THEN Report(w, b, kind, reason) ELSE w

Forget(w, b) == [w EXCEPT !.st[b] = NoRec]
Delete(w, b, reason) == Forget(ReportIf(w, b, "del", "deleted", reason), b)
SetPending(w, b) == [w EXCEPT !.st[b].pending = TRUE]

(* ---- routing algorithms ---- *)
(* the sensor-mule wrapper hands every question to the algorithm it wraps and then strikes the sensor nodes from the answer, telling
   the wrapped algorithm that the transmission to each of them failed (so that a copy set aside for a sensor is taken back) *)
Inner == CASE Algo = "mule_spray" -> "spray" [] Algo = "mule_binary_spray" -> "binary_spray" [] OTHER -> Algo
Eff(tg) == IF Algo \in {"mule_spray", "mule_binary_spray"} THEN tg \ Sensors ELSE tg
Notify(w, b) ==
  LET a == Attr[b] IN
  CASE Algo \in {"epidemic", "prophet", "dtlsr", "mule"} ->
         IF a.prev # "none" THEN [w EXCEPT !.st[b].sent = @ \cup {a.prev}] ELSE w
    [] Inner = "spray" ->
         [w EXCEPT !.meta[b] = IF a.origin = "app"
                               THEN [has |-> TRUE, copies |-> Budget, sent |-> {}]
                               ELSE [has |-> TRUE, copies |-> 1, sent |-> IF a.prev # "none" THEN {a.prev} ELSE {}]]
    [] Inner = "binary_spray" ->
         [w EXCEPT !.meta[b] = IF a.copies > 0
                               THEN [has |-> TRUE, copies |-> a.copies, sent |-> IF a.prev # "none" THEN {a.prev} ELSE {}]
                               ELSE [has |-> TRUE, copies |-> Budget, sent |-> IF a.prev # "none" THEN {a.prev} ELSE {}]]

Allowed(w, b) == Algo \notin {"epidemic", "mule"} \/ IsLocal(Attr[b].dst) \/ (w.up \ w.st[b].sent) # {}

(* peers the algorithm may choose now, and how many of them it takes (the choice among equals is the code's) *)
Candidates(w, b) ==
  CASE IsLocal(Attr[b].dst) -> {}        \* delivered here, the algorithm is not asked
    [] Algo = "epidemic" -> w.up \ w.st[b].sent
    [] Algo = "mule" -> (w.up \ w.st[b].sent) \ Sensors     \* sensors are filtered out (and reported back as failed, i.e. forgotten)
    [] Inner = "spray" -> IF w.meta[b].has /\ w.meta[b].copies >= 2 THEN w.up \ w.meta[b].sent ELSE {}
    [] Inner = "binary_spray" -> IF w.meta[b].has /\ w.meta[b].copies >= 2 THEN w.up \ w.meta[b].sent ELSE {}
    [] Algo = "prophet" -> {p \in w.up \ w.st[b].sent :
                              peerv[p][Attr[b].dst] > (IF Attr[b].dst \in w.own THEN 2 ELSE 0)}
    [] Algo = "dtlsr" -> IF Attr[b].dst = "bcast" THEN w.up \ w.st[b].sent     \* link-state broadcasts go once to every peer
                         ELSE {h \in w.up : <<Attr[b].dst, h>> \in table}
Min(a, c) == IF a < c THEN a ELSE c
HowMany(w, b) ==
  CASE Inner = "spray" -> Min(w.meta[b].copies - 1, Cardinality(Candidates(w, b)))
    [] Inner = "binary_spray" -> Min(1, Cardinality(Candidates(w, b)))
    [] OTHER -> Cardinality(Candidates(w, b))
Choices(w, b) == {s \in SUBSET Candidates(w, b) : Cardinality(s) = HowMany(w, b)}
EffChoices(w, b) == {Eff(s) : s \in Choices(w, b)}      \* what can be seen of a choice: the transmissions
DeleteAfter(b) == Algo = "dtlsr" /\ Attr[b].dst # "bcast"    \* unicast hand-over releases the bundle

(* memory update when the algorithm selected targets tg; announced = copies written into a binary-spray block *)
Announced(w, b) == IF Inner = "binary_spray" THEN w.meta[b].copies \div 2 ELSE 0
Selected(w, b, tg) ==
  CASE Algo \in {"epidemic", "prophet", "mule"} -> [w EXCEPT !.st[b].sent = @ \cup tg]
    [] Inner = "spray" -> [w EXCEPT !.meta[b].sent = @ \cup tg, !.meta[b].copies = @ - Cardinality(tg)]
    [] Inner = "binary_spray" -> IF tg = {} THEN w
                                ELSE [w EXCEPT !.meta[b].sent = @ \cup tg, !.meta[b].copies = @ - Announced(w, b)]
    [] Algo = "dtlsr" -> IF Attr[b].dst = "bcast" THEN [w EXCEPT !.st[b].sent = @ \cup tg] ELSE w
Failed(w, b, p, ann) ==
  CASE Algo \in {"epidemic", "prophet", "dtlsr", "mule"} -> [w EXCEPT !.st[b].sent = @ \ {p}]
    [] Inner = "spray" -> IF w.meta[b].has THEN [w EXCEPT !.meta[b].sent = @ \ {p}, !.meta[b].copies = @ + 1] ELSE w
    [] Inner = "binary_spray" -> IF w.meta[b].has THEN [w EXCEPT !.meta[b].sent = @ \ {p}, !.meta[b].copies = @ + ann] ELSE w

RECURSIVE FailAll(_, _, _, _)
FailAll(w, b, ps, ann) == IF ps = {} THEN w ELSE LET p == CHOOSE x \in ps : TRUE IN FailAll(Failed(w, b, p, ann), b, ps \ {p}, ann)

(* ---- pipeline ---- *)
HopExceeded(b) == Attr[b].hop # <<>> /\ Attr[b].hop[2] + 1 > Attr[b].hop[1]

(* forward with the set tg chosen by the algorithm (ignored for direct delivery) *)
Forward(w, b, tg) ==
  IF HopExceeded(b) THEN Delete(w, b, "hop")
  ELSE IF Expired(b) THEN Delete(w, b, "expired")
  ELSE LET direct == {p \in w.up : p = Attr[b].dst}
           isDirect == direct # {}
           targets == IF isDirect THEN direct ELSE Eff(tg)
           ann == IF isDirect THEN 0 ELSE Announced(w, b)
           w1 == IF isDirect THEN w ELSE Selected(w, b, Eff(tg))
           okT == targets \ w.failing
           \* a failed direct delivery was not selected by the algorithm, so there is nothing to give back
           w2 == IF isDirect THEN w1 ELSE FailAll(w1, b, targets \cap w.failing, ann)
           w3 == [w2 EXCEPT !.sends = @ \cup {[b |-> b, p |-> p, ok |-> p \notin w.failing, direct |-> isDirect, ann |-> ann, seq |-> w.st[b].seq] : p \in targets}]
       IN IF okT # {}
          THEN LET w4 == ReportIf(w3, b, "fwd", "forwarded", "none")
               IN IF isDirect \/ DeleteAfter(b) THEN Forget(w4, b) ELSE SetPending(w4, b)
          ELSE SetPending(w3, b)

(* an administrative record addressed to this node is inspected first: a status report saying that a bundle this node still
   stores was delivered releases that bundle; every other status leaves the store alone *)
Inspect(w, b) ==
  LET x == Attr[b].about IN
  IF Attr[b].admin /\ x # "" /\ Attr[b].rkind = "delivered" /\ w.st[x].known THEN Forget(w, x) ELSE w
LocalDeliver(w, b) ==
  LET w0 == Inspect(w, b) IN
  IF Attr[b].dst \in {"app", "late"}
  THEN Forget(ReportIf([w0 EXCEPT !.delivered = @ \cup {b}], b, "dlv", "delivered", "none"), b)
  ELSE [w0 EXCEPT !.st[b].pending = FALSE]     \* nobody to hand it to: kept (not pending), nothing reported

Dispatch(w, b, tg) ==
  IF ~Allowed(w, b) THEN SetPending(w, b)
  ELSE IF IsLocal(Attr[b].dst) THEN LocalDeliver(w, b)
  ELSE Forward(w, b, tg)

(* pending_bundles job: every pending bundle is dispatched again; pick[b] is the algorithm's choice for b *)
RECURSIVE RetryAll(_, _, _)
RetryAll(w, bs, pick) ==
  IF bs = {} THEN w
  ELSE LET b == CHOOSE x \in bs : TRUE IN RetryAll(Dispatch(w, b, pick[b]), bs \ {b}, pick)
PendingSet(w) == {b \in Cat : w.st[b].known /\ w.st[b].pending}
(* all choice functions for the pending bundles (choices for different bundles are independent) *)
Picks(w) == [PendingSet(w) -> SUBSET Peers]
GoodPick(w, pick) == \A b \in PendingSet(w) : pick[b] \in Choices(w, b)

-----------------------------------------------------------------------------
MemKept(x, w) == CASE Inner \in {"spray", "binary_spray"} -> w.meta[x].has
                   [] Algo = "dtlsr" -> Attr[x].dst = "bcast"
                   [] OTHER -> TRUE
Exp(w) == [stored |-> {b \in Cat : w.st[b].known}, pending |-> {b \in Cat : w.st[b].known /\ w.st[b].pending},
           sends |-> w.sends, delivered |-> w.delivered, reports |-> w.reports,
           seq |-> [b \in {x \in Cat : w.st[x].known} |-> w.st[b].seq],
           copies |-> [b \in {x \in Cat : w.meta[x].has} |-> w.meta[b].copies],
           \* the algorithm's memory of who has the bundle already (kept with the stored bundle, spray: in memory); compared with
           \* the real one after every step, so that a wrong mark is seen at once and not only when a later contact is missed
           mem |-> [b \in {x \in Cat : w.st[x].known /\ MemKept(x, w)} |-> IF Inner \in {"spray", "binary_spray"} THEN w.meta[b].sent ELSE w.st[b].sent]]

Commit(w, rec) ==
  /\ st' = w.st /\ meta' = w.meta
  /\ aged' = {b \in (IF rec.act = "Advance" THEN {x \in Cat : w.st[x].known} ELSE aged) : w.st[b].known}
  /\ steps' = steps + 1
  /\ hist' = IF EmitMode = "none" THEN hist ELSE Append(hist, rec @@ [exp |-> Exp(w)])
  /\ (EmitMode = "edge") => PrintT(<<"TRACE", ToJson(hist')>>)

Go(name) == name \in Enabled /\ steps < MaxSteps

Submit(b, tg) ==
  /\ Go("Submit") /\ Attr[b].origin = "app" /\ b \notin used
  /\ used' = used \cup {b}
  /\ LET g == Attr[b].tsg
         \* the counter is volatile, the store is not: a number under which a bundle of this source and time is stored is skipped
         taken == {st[x].seq : x \in {y \in Cat : st[y].known /\ Attr[y].origin = "app" /\ Attr[y].tsg = g /\ g # 0}}
         \* (group 0 = no group: a creation time of its own, the first number)
         sq == IF g = 0 THEN 0 ELSE CHOOSE k \in idk[g]..(idk[g] + Cardinality(Cat)) : k \notin taken /\ \A j \in idk[g]..(k - 1) : j \in taken
         w0 == [World EXCEPT !.st[b] = [known |-> TRUE, pending |-> FALSE, sent |-> {}, seq |-> sq]]
         w1 == Notify(w0, b)
     IN /\ tg \in Choices(w1, b)
        /\ idk' = IF g = 0 THEN idk ELSE [idk EXCEPT ![g] = sq + 1]
        /\ Commit(Dispatch(w1, b, tg), [act |-> "Submit", b |-> b, tg |-> tg, choices |-> [x \in {b} |-> EffChoices(w1, b)]])
  /\ UNCHANGED <<up, failing, own, peerv, nbr, table, via, late, lateReg>>

Receive(b, tg) ==
  /\ Go("Receive") /\ Attr[b].origin \in up
  /\ IF st[b].known
     THEN Commit(World, [act |-> "Receive", b |-> b, tg |-> {}])                 \* already known: nothing happens
     ELSE LET a == Attr[b]
              w0 == [World EXCEPT !.st[b] = [known |-> TRUE, pending |-> FALSE, sent |-> {}, seq |-> 0]]
              w1 == ReportIf(w0, b, "rcpt", "received", "none")
              w2 == IF a.hasunk /\ "report" \in a.unkf /\ ~a.admin /\ ~a.rptlocal THEN Report(w1, b, "received", "unsupported") ELSE w1
          IN IF a.hasunk /\ "delete" \in a.unkf
             THEN Commit(Delete(w2, b, "unsupported"), [act |-> "Receive", b |-> b, tg |-> {}])
             ELSE LET w3 == Notify(w2, b)
                  IN /\ tg \in Choices(w3, b)
                     /\ Commit(Dispatch(w3, b, tg), [act |-> "Receive", b |-> b, tg |-> tg, choices |-> [x \in {b} |-> EffChoices(w3, b)]])
  /\ UNCHANGED <<up, failing, own, peerv, nbr, table, via, idk, used, late, lateReg>>

(* a bundle arrives from a peer at the very moment the application submits another one: the two are handled by different
   goroutines of the node (Core.handler and the AgentManager's) that share the store. Both bundles are accepted; the outcome is
   that of handling one after the other (they do not touch each other's records). Restricted to plain bundles (no tsg group, no
   unsupported blocks) whose transmissions, if any, are determined. *)
Race(br, bs, tgr, tgs) ==
  /\ Go("Race") /\ Attr[br].origin \in up /\ ~st[br].known /\ ~Attr[br].hasunk
  /\ Attr[bs].origin = "app" /\ bs \notin used /\ Attr[bs].tsg = 0
  /\ used' = used \cup {bs}
  /\ LET r0 == [World EXCEPT !.st[br] = [known |-> TRUE, pending |-> FALSE, sent |-> {}, seq |-> 0]]
         r1 == Notify(ReportIf(r0, br, "rcpt", "received", "none"), br)
         r2 == Dispatch(r1, br, tgr)
         s0 == [r2 EXCEPT !.st[bs] = [known |-> TRUE, pending |-> FALSE, sent |-> {}, seq |-> 0]]
         s1 == Notify(s0, bs)
     IN /\ tgr \in Choices(r1, br) /\ Cardinality(Choices(r1, br)) = 1
        /\ tgs \in Choices(s1, bs) /\ Cardinality(Choices(s1, bs)) = 1
        /\ UNCHANGED idk
        /\ Commit(Dispatch(s1, bs, tgs), [act |-> "Race", b |-> br, d |-> bs, choices |-> [x \in {br, bs} |-> IF x = br THEN EffChoices(r1, br) ELSE EffChoices(s1, bs)]])
  /\ UNCHANGED <<up, failing, own, peerv, nbr, table, via, late, lateReg>>

PeerUp(p, pick) ==
  /\ Go("PeerUp") /\ p \notin up
  /\ up' = up \cup {p}
  /\ own' = own \cup {p} /\ nbr' = nbr \cup {p}
  /\ LET w == [World EXCEPT !.up = up \cup {p}, !.own = own \cup {p}] IN
     /\ pick \in Picks(w)
     /\ GoodPick(w, pick)
     /\ Commit(RetryAll(w, PendingSet(w), pick), [act |-> "PeerUp", p |-> p, pick |-> pick, choices |-> [x \in PendingSet(w) |-> EffChoices(w, x)]])
  /\ UNCHANGED <<failing, peerv, table, via, idk, used, late, lateReg>>

PeerDown(p) ==
  /\ Go("PeerDown") /\ p \in up
  /\ up' = up \ {p}
  /\ Commit(World, [act |-> "PeerDown", p |-> p])
  /\ UNCHANGED <<failing, own, peerv, nbr, table, via, idk, used, late, lateReg>>

SetFail(p, v) ==
  /\ Go("SetFail") /\ (p \in failing) # v
  /\ failing' = IF v THEN failing \cup {p} ELSE failing \ {p}
  /\ Commit(World, [act |-> "SetFail", p |-> p, v |-> v])
  /\ UNCHANGED <<up, own, peerv, nbr, table, via, idk, used, late, lateReg>>

RetryTick(pick) ==
  /\ Go("RetryTick")
  /\ pick \in Picks(World) /\ GoodPick(World, pick)
  /\ Commit(RetryAll(World, PendingSet(World), pick), [act |-> "RetryTick", pick |-> pick, choices |-> [x \in PendingSet(World) |-> EffChoices(World, x)]])
  /\ UNCHANGED <<up, failing, own, peerv, nbr, table, via, idk, used, late, lateReg>>

CleanTick ==
  /\ Go("CleanTick")
  /\ Commit([World EXCEPT !.st = [b \in Cat |-> IF st[b].known /\ Expired(b) THEN NoRec ELSE st[b]]], [act |-> "CleanTick"])
  /\ UNCHANGED <<up, failing, own, peerv, nbr, table, via, idk, used, late, lateReg>>

Advance ==
  /\ Go("Advance") /\ ~late
  /\ late' = TRUE
  /\ Commit(World, [act |-> "Advance"])
  /\ UNCHANGED <<up, failing, own, peerv, nbr, table, via, idk, used, lateReg>>

(* a client registers the endpoint "late" while the node runs; what is stored for it is delivered at the next dispatch - once *)
Register ==
  /\ Go("Register") /\ ~lateReg
  /\ lateReg' = TRUE
  /\ Commit(World, [act |-> "Register"])
  /\ UNCHANGED <<up, failing, own, peerv, nbr, table, via, idk, used, late>>

Restart ==
  /\ Go("Restart")
  /\ up' = {} /\ own' = {} /\ nbr' = {} /\ table' = {} /\ via' = "none"
  /\ peerv' = [p \in Peers |-> [d \in Peers \cup {"far", "bcast"} |-> 0]]
  /\ idk' = [g \in Groups |-> 0]
  /\ Commit([World EXCEPT !.meta = [b \in Cat |-> NoMeta]], [act |-> "Restart"])
  /\ UNCHANGED <<failing, used, late, lateReg>>

(* prophet: peer p (connected) sends its summary vector: its predictability for destination d becomes level v *)
Vector(p, d, v) ==
  /\ Go("Vector") /\ Algo = "prophet" /\ p \in up /\ peerv[p][d] # v
  /\ peerv' = [peerv EXCEPT ![p][d] = v]
  /\ Commit(World, [act |-> "Vector", p |-> p, d |-> d, v |-> v])
  /\ UNCHANGED <<up, failing, own, nbr, table, via, idk, used, late, lateReg>>

(* dtlsr: routing table recomputation: every node that is or was a neighbour has a route (itself as next hop) *)
Recompute ==
  /\ Go("Recompute") /\ Algo = "dtlsr"
  /\ table' = {<<n, n>> : n \in nbr} \cup (IF via \in nbr THEN {<<"far", via>>} ELSE {})
  /\ Commit(World, [act |-> "Recompute"])
  /\ UNCHANGED <<up, failing, own, peerv, nbr, via, idk, used, late, lateReg>>

(* dtlsr: link-state data of the connected peer p arrives, saying that p is connected to node "far" *)
Learn(p) ==
  /\ Go("Learn") /\ Algo = "dtlsr" /\ p \in up /\ via = "none"     \* one advertiser only: with two the choice among equal-cost paths is the library's
  /\ via' = p
  /\ Commit(World, [act |-> "Learn", p |-> p])
  /\ UNCHANGED <<up, failing, own, peerv, nbr, table, idk, used, late, lateReg>>

Next ==
  \/ \E b \in Cat, tg \in SUBSET Peers : Submit(b, tg) \/ Receive(b, tg)
  \/ \E br, bs \in Cat, tgr, tgs \in SUBSET Peers : Race(br, bs, tgr, tgs)
  \/ \E p \in Peers : PeerDown(p) \/ (\E v \in BOOLEAN : SetFail(p, v))
  \/ \E p \in Peers : \E pick \in [PendingSet(World) -> SUBSET Peers] : PeerUp(p, pick)
  \/ \E pick \in [PendingSet(World) -> SUBSET Peers] : RetryTick(pick)
  \/ CleanTick \/ Advance \/ Restart \/ Register \/ Recompute \/ (\E p \in Peers : Learn(p))
  \/ \E p \in Peers, d \in VecDests, v \in VecLevels : Vector(p, d, v)

Spec == Init /\ [][Next]_vars

-----------------------------------------------------------------------------
(* Properties, stated over the last step's outputs (carried in hist when recording) and the state *)
LastExp == hist[Len(hist)].exp

\* C05: an accepted bundle that is neither finally transmitted, delivered, refused nor expired is stored and marked for retry
Owed(b) == st[b].known
NoSilentLoss == \A b \in Cat : st[b].known /\ ~IsLocal(Attr[b].dst) => st[b].pending

\* C18: spray-and-wait never holds a negative number of copies and never more than its budget / what it received
CopiesInRange == \A b \in Cat : meta[b].has => meta[b].copies >= 0 /\ meta[b].copies <= (IF Attr[b].copies > 0 THEN Attr[b].copies ELSE Budget)
\* C18 (vanilla): copies kept + peers holding one = budget, for bundles originated here
Conservation == Inner = "spray" => \A b \in Cat : (meta[b].has /\ Attr[b].origin = "app") => meta[b].copies + Cardinality(meta[b].sent) = Budget

\* C14: bundles of one (source, time) group are stored under distinct sequence numbers
DistinctIds == \A x, y \in Cat : (x # y /\ st[x].known /\ st[y].known /\ Attr[x].origin = "app" /\ Attr[y].origin = "app"
                                    /\ Attr[x].tsg = Attr[y].tsg /\ Attr[x].tsg # 0) => st[x].seq # st[y].seq

\* sensor-mule: a sensor node is handed a bundle only by direct delivery (checked where the steps are recorded)
SensorsDirectOnly == (hist # <<>> /\ Algo \in {"mule", "mule_spray", "mule_binary_spray"}) => \A s \in LastExp.sends : s.p \in Sensors => s.direct

SView == <<up, failing, st, meta, own, peerv, nbr, table, via, idk, used, late, aged, lateReg, steps>>
Emit == (EmitMode = "final" /\ steps = MaxSteps) => PrintT(<<"TRACE", ToJson(hist)>>)
=============================================================================
