#!/usr/bin/env python3
"""Re-run one saved Core counterexample (out/Cxx-core_*.json) against /repo's working tree and print what the harness says.
usage: tools/replay_core.py <replay.json> [times]"""
import json, os, sys
sys.path.insert(0, os.path.dirname(os.path.abspath(__file__)))
import vlib

def main():
    d = json.load(open(sys.argv[1]))
    times = int(sys.argv[2]) if len(sys.argv) > 2 else 1
    rp = d["replay"]
    lines = [{"cfg": rp["cfg"], "w": 0}] + [{"w": 0, "h": rp["history"]} for _ in range(times)]
    inp = vlib.write_input("replay-core", lines)
    rc, out, recs = vlib.go_test("pkg/routing", ["common/vh.go", "routing/core_world.go", "routing/core_replay.go"], "TestVerifCoreReplay",
                                 env={"VERIF_IN": inp, "VERIF_PAR": 1, "VERIF_LOG": os.environ.get("VERIF_LOG", "")}, name="replay-core", extra_args=(("-v",) if os.environ.get("VERIF_LOG") else ()))
    if os.environ.get("VERIF_LOG"):
        print(out)
    for r in recs:
        if r.get("k") in ("viol", "infra", "note"):
            print(json.dumps(r)[:600])
    print("rc", rc, "records", len(recs), "violations", sum(1 for r in recs if r.get("k") == "viol"))

main()
