package storage

// C10 on the store: fragments of one bundle (from one fragmentation, and with one fragment fragmented again) are pushed in several
// orders, one at a time; after every push the record's completeness test and Load are recorded in the shape of the bpv7 harness'
// "reasm" records and judged by Frag!ReasmRecProblems: complete and loadable exactly when the fragments stored so far cover
// the payload, and then the original comes back.

import (
	"bytes"
	"encoding/json"
	"fmt"
	"io"
	"math/rand"
	"os"
	"path/filepath"
	"testing"
	"time"

	log "github.com/sirupsen/logrus"

	"github.com/dtn7/dtn7-go/pkg/bpv7"
)

type vs10Iv struct {
	Off int `json:"off"`
	Len int `json:"len"`
}

type vs10Rec struct {
	T             string   `json:"t"`
	Total         int      `json:"total"`
	Frags         []vs10Iv `json:"frags"`
	Reassemblable bool     `json:"reassemblable"`
	ReasmErr      bool     `json:"reasm_err"`
	PayloadOK     bool     `json:"payload_ok"`
	BlocksOK      bool     `json:"blocks_ok"`
	StoreTried    bool     `json:"store_tried"`
	StoreComplete bool     `json:"store_complete"`
	Origin        string   `json:"origin"`
}

func vs10Payload(b bpv7.Bundle) []byte {
	pb, err := b.PayloadBlock()
	if err != nil {
		return nil
	}
	return pb.Value.(*bpv7.PayloadBlock).Data()
}

func TestVerifC10Store(t *testing.T) {
	log.SetOutput(io.Discard)
	f, err := os.Create(os.Getenv("VERIF_REC"))
	if err != nil {
		t.Fatal(err)
	}
	defer f.Close()
	rng := rand.New(rand.NewSource(vhSeed()))
	n := 0
	orders := vhEnvInt("VERIF_ORDERS", 6)
	for ci, plen := range []int{300, 600, 1000} {
		for _, crc := range []bpv7.CRCType{bpv7.CRCNo, bpv7.CRC32} {
			data := make([]byte, plen)
			for i := range data {
				data[i] = byte(i*7 + ci)
			}
			orig, err := bpv7.Builder().CRC(crc).Source(fmt.Sprintf("dtn://c10-%d-%d/", ci, crc)).Destination("dtn://dst/").CreationTimestampNow().Lifetime("1h").
				HopCountBlock(8).PayloadBlock(data).Build()
			if err != nil {
				t.Fatal(err)
			}
			var origSer bytes.Buffer
			_ = orig.WriteBundle(&origSer)
			first, err := orig.Fragment(260)
			if err != nil || len(first) < 2 {
				t.Fatalf("fragmentation failed: %v (%d)", err, len(first))
			}
			// pool: the first-level fragments, the last of them replaced by its own fragments in half of the cases
			pools := [][]bpv7.Bundle{first}
			if sub, err := first[len(first)-1].Fragment(180); err == nil && len(sub) > 1 {
				pools = append(pools, append(append([]bpv7.Bundle{}, first[:len(first)-1]...), sub...))
			}
			for pi, pool := range pools {
				for o := 0; o < orders; o++ {
					perm := rng.Perm(len(pool))
					if o == 0 {
						for i := range perm {
							perm[i] = i
						}
					}
					dir := filepath.Join(vhScratch(), fmt.Sprintf("c10-%d-%d-%d-%d", ci, crc, pi, o))
					_ = os.RemoveAll(dir)
					s, err := vsOpen(dir)
					if err != nil {
						t.Fatal(err)
					}
					var ivs []vs10Iv
					for step, k := range perm {
						fr := pool[k]
						if err := s.Push(fr); err != nil {
							vhViol("store/push-error", err.Error(), vhRec{"payload": plen})
							break
						}
						ivs = append(ivs, vs10Iv{Off: int(fr.PrimaryBlock.FragmentOffset), Len: len(vs10Payload(fr))})
						rec := vs10Rec{T: "reasm", Total: plen, Frags: append([]vs10Iv{}, ivs...), StoreTried: true, Origin: fmt.Sprintf("store/pool%d/order%d/step%d", pi, o, step)}
						bi, err := s.QueryId(orig.ID())
						if err != nil {
							vhViol("store/record-missing", "record of a pushed fragment cannot be found: "+err.Error(), vhRec{"payload": plen})
							break
						}
						rec.StoreComplete = bi.IsComplete()
						rec.Reassemblable = rec.StoreComplete
						func() {
							defer func() {
								if p := recover(); p != nil {
									vhViol("store/load-panic", fmt.Sprint(p), vhRec{"frags": ivs})
									rec.ReasmErr = true
								}
							}()
							b, lerr := bi.Load()
							rec.ReasmErr = lerr != nil
							if lerr == nil {
								var ser bytes.Buffer
								_ = b.WriteBundle(&ser)
								rec.PayloadOK = bytes.Equal(vs10Payload(b), data) && !b.PrimaryBlock.HasFragmentation()
								rec.BlocksOK = bytes.Equal(ser.Bytes(), origSer.Bytes()) || !rec.PayloadOK
							}
						}()
						out, _ := json.Marshal(rec)
						f.Write(append(out, '\n'))
						n++
					}
					_ = s.Close()
					_ = os.RemoveAll(dir)
				}
			}
		}
	}
	_ = time.Now
	vhStat("records", n)
	vhDone()
}
