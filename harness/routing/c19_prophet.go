package routing

// C19 numeric part: random event sequences on a real Prophet instance, every step recorded with the exact bit
// patterns of the predictabilities before/after, for judgement by Prophet.tla. Snapshot rule: the vector inside a
// metadata bundle must not change after the bundle was built.

import (
	"bytes"
	"encoding/json"
	"fmt"
	"github.com/dtn7/dtn7-go/pkg/cla"
	"io"
	"math"
	"math/rand"
	"os"
	"path/filepath"
	"sync"
	"sync/atomic"
	"testing"
	"time"

	log "github.com/sirupsen/logrus"

	"github.com/dtn7/dtn7-go/pkg/bpv7"
)

func vpLimbs(f float64) []int {
	b := math.Float64bits(f)
	return []int{int(b >> 48 & 0xffff), int(b >> 32 & 0xffff), int(b >> 16 & 0xffff), int(b & 0xffff)}
}

var vpValues = []float64{0, 1, math.SmallestNonzeroFloat64, 5e-324 * 3, 1e-300, 0.5, 0.25, 0.75, 0.999999999999, 1e-9, 0.1, 0.9, math.Nextafter(1, 0), math.Nextafter(0.5, 1)}

func vpPick(rng *rand.Rand) float64 {
	if rng.Intn(3) == 0 {
		return rng.Float64()
	}
	return vpValues[rng.Intn(len(vpValues))]
}

func TestVerifC19Numeric(t *testing.T) {
	log.SetOutput(io.Discard)
	f, err := os.Create(os.Getenv("VERIF_REC"))
	if err != nil {
		t.Fatal(err)
	}
	defer f.Close()
	nrec := 0
	put := func(v interface{}) {
		b, _ := json.Marshal(v)
		f.Write(append(b, '\n'))
		nrec++
	}
	runs := vhEnvInt("VERIF_RUNS", 6)
	steps := vhEnvInt("VERIF_STEPS", 400)
	seed := vhSeed()
	nodes := []bpv7.EndpointID{}
	for i := 0; i < 5; i++ {
		nodes = append(nodes, bpv7.MustNewEndpointID(fmt.Sprintf("dtn://n%d/", i)))
	}
	for run := 0; run < runs; run++ {
		rng := rand.New(rand.NewSource(seed*1009 + int64(run)))
		conf := ProphetConfig{PInit: vpPick(rng), Beta: vpPick(rng), Gamma: vpPick(rng), AgeInterval: "1000h"}
		if run == 0 {
			conf = ProphetConfig{PInit: 0.75, Beta: 0.25, Gamma: 0.98, AgeInterval: "1000h"} // the documented defaults
		}
		dir := filepath.Join(vhScratch(), fmt.Sprintf("prophet-%d", run))
		_ = os.RemoveAll(dir)
		c, err := NewCore(dir, bpv7.MustNewEndpointID(vcNode), false, RoutingConf{Algorithm: "prophet", ProphetConf: conf}, nil)
		if err != nil {
			t.Fatal(err)
		}
		for _, j := range vcCronJobs {
			c.cron.Unregister(j)
		}
		pr := c.routing.(*Prophet)
		snapshot := func() map[bpv7.EndpointID]float64 {
			pr.dataMutex.RLock()
			defer pr.dataMutex.RUnlock()
			m := map[bpv7.EndpointID]float64{}
			for k, v := range pr.predictabilities {
				m[k] = v
			}
			return m
		}
		for s := 0; s < steps; s++ {
			before := snapshot()
			ev := ""
			func() {
				defer func() {
					if p := recover(); p != nil {
						vhViol("prophet/panic", fmt.Sprintf("%s panicked: %v", ev, p), vhRec{"conf": conf, "run": run, "step": s})
					}
				}()
				switch rng.Intn(3) {
				case 0:
					ev = "encounter"
					pr.dataMutex.Lock()
					pr.encounter(nodes[rng.Intn(len(nodes))])
					pr.dataMutex.Unlock()
				case 1:
					ev = "age"
					pr.ageCron()
				default:
					ev = "transit"
					src := nodes[rng.Intn(len(nodes))]
					vec := map[bpv7.EndpointID]float64{}
					for _, n := range nodes {
						if rng.Intn(2) == 0 {
							vec[n] = vpPick(rng)
						}
					}
					b, err := bpv7.Builder().Source(src).Destination(vcNode).CreationTimestampNow().Lifetime("1h").BundleCtrlFlags(bpv7.MustNotFragmented).
						PayloadBlock([]byte("v")).Canonical(bpv7.NewProphetBlock(vec)).Build()
					if err != nil {
						vhEmit(vhRec{"k": "infra", "v": err.Error()})
						return
					}
					// through the wire form, as a peer would deliver it
					var buf bytes.Buffer
					_ = b.WriteBundle(&buf)
					pb, err := bpv7.ParseBundle(&buf)
					if err != nil {
						vhEmit(vhRec{"k": "infra", "v": "metadata bundle does not parse: " + err.Error()})
						return
					}
					pr.NotifyNewBundle(BundleDescriptor{Id: pb.ID(), bndl: &pb, store: c.store, Constraints: map[Constraint]bool{}, Tags: map[Tag]struct{}{}})
				}
			}()
			after := snapshot()
			type ent struct {
				Before []int `json:"before"`
				After  []int `json:"after"`
			}
			entries := []ent{}
			for k, v := range after {
				entries = append(entries, ent{vpLimbs(before[k]), vpLimbs(v)})
			}
			put(vhRec{"ev": ev, "entries": entries, "run": run, "step": s, "conf": []float64{conf.PInit, conf.Beta, conf.Gamma}})
		}
		// snapshot rule: a convergence layer may serialise the bundle any time after it was handed over (real ones do it
		// on their own goroutine): the vector it then finds must be the one of the moment the bundle was built.
		pr.dataMutex.Lock()
		pr.encounter(nodes[0])
		pr.dataMutex.Unlock()
		w := &vcWorld{peers: map[string]*vcPeer{}, barrierCh: make(chan string, 4)}
		p := &vcPeer{name: "n1", eid: nodes[1], w: w, up: true, keep: true}
		c.RegisterConvergable(p) // direct delivery target for the summary vector
		want := snapshot()
		pr.sendMetadata(nodes[1]) // runs the whole SendBundle pipeline synchronously; the mock keeps the bundle it was handed
		probe := bpv7.MustNewEndpointID("dtn://alias-probe/")
		pr.dataMutex.Lock()
		pr.encounter(probe)
		pr.dataMutex.Unlock()
		same := false
		p.mu.Lock()
		kept := p.kept
		p.mu.Unlock()
		for _, kb := range kept {
			cb, err := kb.ExtensionBlock(bpv7.ExtBlockTypeProphetBlock)
			if err != nil {
				continue
			}
			var buf bytes.Buffer
			if err := kb.WriteBundle(&buf); err != nil {
				continue
			}
			_ = cb
			pb, err := bpv7.ParseBundle(&buf)
			if err != nil {
				continue
			}
			pcb, err := pb.ExtensionBlock(bpv7.ExtBlockTypeProphetBlock)
			if err != nil {
				continue
			}
			got := pcb.Value.(*bpv7.ProphetBlock).GetPredictabilities()
			same = len(got) == len(want)
			for k, v := range want {
				if gv, ok := got[k]; !ok || math.Float64bits(gv) != math.Float64bits(v) {
					same = false
				}
			}
		}
		if len(kept) == 0 {
			vhEmit(vhRec{"k": "infra", "v": "summary vector bundle did not reach the mock convergence layer"})
		}
		put(vhRec{"ev": "vector", "same_as_snapshot": same, "run": run})
		c.Close()
		_ = os.RemoveAll(dir)
	}
	vhStat("records", nrec)
	vhStat("runs", runs)
	vhDone()
}

// TestVerifC19Concurrent: peers appear (the node copies its table into a summary vector), the table is aged, vectors arrive and
// forwarding decisions are taken at the same time, on a table of a thousand nodes. Run with the race detector: an unsynchronised
// access to the tables is reported there at once; without it the Go runtime ends the process with "concurrent map ..." sooner
// or later. The property demands that this never crashes the node.
func TestVerifC19Concurrent(t *testing.T) {
	log.SetOutput(io.Discard)
	dir := filepath.Join(vhScratch(), "prophet-conc")
	_ = os.RemoveAll(dir)
	c, err := NewCore(dir, bpv7.MustNewEndpointID(vcNode), false, RoutingConf{Algorithm: "prophet",
		ProphetConf: ProphetConfig{PInit: 0.75, Beta: 0.25, Gamma: 0.98, AgeInterval: "1000h"}}, nil)
	if err != nil {
		t.Fatal(err)
	}
	defer c.Close()
	for _, j := range vcCronJobs {
		c.cron.Unregister(j)
	}
	pr := c.routing.(*Prophet)
	for i := 0; i < 1000; i++ {
		pr.encounter(bpv7.MustNewEndpointID(fmt.Sprintf("dtn://known%d/", i)))
	}
	peers := []*vcPeer{}
	for i := 0; i < 4; i++ {
		p := &vcPeer{name: fmt.Sprintf("q%d", i), eid: bpv7.MustNewEndpointID(fmt.Sprintf("dtn://q%d/", i)), ch: make(chan cla.ConvergenceStatus, 1024), up: true}
		peers = append(peers, p)
	}
	dur := time.Duration(vhEnvInt("VERIF_MS", 1500)) * time.Millisecond
	stop := time.Now().Add(dur)
	var wg sync.WaitGroup
	var ops [4]int64
	run := func(k int, fn func(i int)) {
		wg.Add(1)
		go func() {
			defer wg.Done()
			for i := 0; time.Now().Before(stop); i++ {
				fn(i)
				atomic.AddInt64(&ops[k], 1)
			}
		}()
	}
	run(0, func(i int) { pr.ageCron() })
	run(1, func(i int) { pr.ReportPeerAppeared(peers[i%len(peers)]) })
	run(2, func(i int) {
		p := peers[i%len(peers)]
		vec := map[bpv7.EndpointID]float64{bpv7.MustNewEndpointID(fmt.Sprintf("dtn://known%d/", i%1000)): 0.5, bpv7.MustNewEndpointID("dtn://far/"): 0.25}
		b, err := bpv7.Builder().Source(p.eid).Destination(vcNode).CreationTimestampTime(time.Now().Add(time.Duration(i) * time.Millisecond)).
			Lifetime("1h").BundleCtrlFlags(bpv7.MustNotFragmented).PayloadBlock([]byte("vector")).Canonical(bpv7.NewProphetBlock(vec)).Build()
		if err == nil {
			pr.NotifyNewBundle(BundleDescriptor{Id: b.ID(), bndl: &b, store: c.store, Constraints: map[Constraint]bool{}, Tags: map[Tag]struct{}{}})
		}
	})
	run(3, func(i int) { pr.ReportPeerDisappeared(peers[i%len(peers)]) })
	wg.Wait()
	for k, n := range ops {
		vhStat(fmt.Sprintf("concurrent_ops_%d", k), int(n))
	}
	vhDone()
}
