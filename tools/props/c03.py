"""C03 Block CRCs are computed per specification and every mismatch is rejected."""
from props.wirecommon import *


def run(tier):
    chk = Check("C03", tier, "model_checking")
    chk.assumptions = ["CRC-16/X-25 and CRC-32C are defined bit-serially in Wire.tla from their polynomials (check values asserted by ASSUME)",
                       "block boundaries of corrupted inputs are found by Wire!Delimit, independently of the Go parser; accepted mutants that "
                       "Delimit cannot split are reported as unjudged (counted, not violations)",
                       "bursts are generated inside one block (boundaries taken from the real serialiser)"]
    chk.cov["rule"] = ("TLC enumerates abstract bundles (Valid.tla families); the harness builds each through the API with a CRC on every block, "
                       "records the real serialisation (TLC recomputes every CRC over the independently delimited block bytes) and applies "
                       "every single-bit flip plus seeded bursts <= CRC width at every start bit; every mutant the real parser ACCEPTS is "
                       "judged by TLC (accepted with a wrong declared CRC = violation; an accepted single-bit change, or an accepted burst that "
                       "leaves the independently found block boundaries where they were = violation). distinct = distinct serialisations judged.")
    fams = ["crc", "payload", "eids", "widths"] if tier == "quick" else ["crc", "payload", "eids", "widths", "blocks", "flags"]
    cases = generate(chk, fams)
    if tier == "quick":
        cases = cases[:140]
    inp = write_input("c03.ndjson", cases)
    recf = os.path.join(scratch("rec"), "c03.ndjson")
    st = run_harness(chk, "corrupt and parse", "pkg/bpv7", FILES, "TestVerifC03Record", env={"VERIF_IN": inp, "VERIF_REC": recf, "VERIF_PAR": 16},
                     timeout=1500, crash_key="parser/crash")
    recs = read_ndjson(recf)
    if st.get("bundles", 0) < 20 or st.get("corruptions", 0) < 1000:
        raise InfraError("vacuous: %s" % st)
    n, nbad, unj = judge(chk, recs, "crc")
    chk.cov["traces_validated_against_impl"] = n
    chk.cov["evaluations"] = st["corruptions"] + st["bundles"]
    chk.cov["distinct_nontrivial"] = len({json.dumps(r["bytes"]) for r in recs if r["t"] == "ser"})
    chk.cov["corruptions"] = st["corruptions"]
    chk.cov["rejected_by_parser"] = st["rejected"]
    chk.cov["accepted_mutants_judged_by_tlc"] = st.get("accepted_mutants", 0)
    chk.cov["accepted_mutants_unjudged"] = unj
    chk.cov["samples"].append({"serialisation": recs[0]["bytes"][:80] if recs else None})
    return chk.finish()
