------------------------------ MODULE Prophet ------------------------------
(* PRoPHET delivery predictabilities (property C19, numeric part and snapshot rule).            *)
(* TLC has no reals: a predictability is carried as the IEEE-754 bit pattern of the float64 the  *)
(* implementation holds, split into four 16-bit limbs. For non-negative floats the lexicographic *)
(* order of the limbs is the numeric order, so the comparisons below are exact.                  *)
(* The update formulas themselves (p + (1-p)*P_init, p*gamma, p + (1-p)*p_b*p_bc*beta) are not    *)
(* re-computed here; the property only demands range and monotonicity, which is what is judged   *)
(* on every recorded step of the real code.                                                      *)
EXTENDS Integers, Sequences, FiniteSets, TLC, Json

Zero == <<0, 0, 0, 0>>
One == <<16368, 0, 0, 0>>          \* 0x3FF0 0000 0000 0000

RECURSIVE LexLeq(_, _, _)
LexLeq(a, b, i) == IF i > 4 THEN TRUE ELSE IF a[i] < b[i] THEN TRUE ELSE IF a[i] > b[i] THEN FALSE ELSE LexLeq(a, b, i + 1)
Leq(a, b) == LexLeq(a, b, 1)
NonNegative(a) == a[1] < 32768      \* sign bit clear
IsNumber(a) == a[1] % 32768 < 32752 \* exponent not all ones (neither infinity nor NaN)
InRange(a) == NonNegative(a) /\ IsNumber(a) /\ Leq(a, One)

(* rec: [ev: "encounter" | "age" | "transit", consts_ok, inputs_ok, entries: Seq([before, after])]           *)
(* entries lists every predictability the node holds after the step (before = Zero for new destinations).     *)
StepProblems(r) ==
  {p \in {"out-of-range", "encounter-lowered", "ageing-raised", "transitivity-lowered"} :
     CASE p = "out-of-range" -> \E i \in 1..Len(r.entries) : ~InRange(r.entries[i].after)
       [] p = "encounter-lowered" -> r.ev = "encounter" /\ \E i \in 1..Len(r.entries) : ~Leq(r.entries[i].before, r.entries[i].after)
       [] p = "ageing-raised" -> r.ev = "age" /\ \E i \in 1..Len(r.entries) : ~Leq(r.entries[i].after, r.entries[i].before)
       [] p = "transitivity-lowered" -> r.ev = "transit" /\ \E i \in 1..Len(r.entries) : ~Leq(r.entries[i].before, r.entries[i].after)}

(* snapshot rule: the vector a metadata bundle carries when it is serialised is the vector at the moment it was built *)
(* rec: [ev: "vector", same_as_snapshot]                                                                              *)
VectorProblems(r) == IF r.same_as_snapshot THEN {} ELSE {"sent-vector-aliases-live-table"}

CONSTANT RecFile
Recs == ndJsonDeserialize(RecFile)
Problems(r) == IF r.ev = "vector" THEN VectorProblems(r) ELSE StepProblems(r)
ASSUME \A i \in 1..Len(Recs) : LET p == Problems(Recs[i]) IN p = {} \/ PrintT(<<"BAD", ToJson([i |-> i, problems |-> p])>>)
ASSUME PrintT(<<"CHECKED", ToJson([n |-> Len(Recs)])>>)
ASSUME Leq(Zero, One) /\ ~Leq(One, Zero) /\ InRange(One) /\ InRange(Zero) /\ ~InRange(<<16368, 0, 0, 1>>) /\ ~InRange(<<32768, 0, 0, 0>>)
VARIABLE x
CheckSpec == x = 0 /\ [][FALSE]_x
=============================================================================
