package routing

// Replay of Core.tla behaviours on a real routing.Core (properties C05 C06 C13 C14 C15 C18, gates of C19 / C20).

import (
	"bufio"
	"bytes"
	"encoding/json"
	"fmt"
	"io"
	"os"
	"path/filepath"
	"runtime"
	"runtime/pprof"
	"sort"
	"strings"
	"sync"
	"testing"
	"time"

	log "github.com/sirupsen/logrus"

	"github.com/dtn7/dtn7-go/pkg/bpv7"
	"github.com/dtn7/dtn7-go/pkg/cla"
	"github.com/dtn7/dtn7-go/pkg/storage"
)

type vcSendExp struct {
	B      string `json:"b"`
	P      string `json:"p"`
	Ok     bool   `json:"ok"`
	Direct bool   `json:"direct"`
	Ann    int    `json:"ann"`
	Seq    int    `json:"seq"`
}

type vcReportExp struct {
	B      string `json:"b"`
	Kind   string `json:"kind"`
	Reason string `json:"reason"`
}

type vcExp struct {
	Stored    []string            `json:"stored"`
	Pending   []string            `json:"pending"`
	Sends     []vcSendExp         `json:"sends"`
	Delivered []string            `json:"delivered"`
	Reports   []vcReportExp       `json:"reports"`
	RawSeq    json.RawMessage     `json:"seq"`
	RawCopies json.RawMessage     `json:"copies"`
	RawMem    json.RawMessage     `json:"mem"`
	Mem       map[string][]string `json:"-"`
	Copies    map[string]int      `json:"-"`
	Seq       map[string]int      `json:"-"`
}

type vcStep struct {
	Act     string                `json:"act"`
	B       string                `json:"b"`
	P       string                `json:"p"`
	V       json.RawMessage       `json:"v"`
	D       string                `json:"d"`
	RawCh   json.RawMessage       `json:"choices"`
	Choices map[string][][]string `json:"-"`
	Exp     vcExp                 `json:"exp"`
}

type vcCfg struct {
	Prop   string            `json:"prop"`
	Algo   string            `json:"algo"`
	Budget int               `json:"budget"`
	Peers  []string          `json:"peers"`
	Cat    map[string]vcAttr `json:"cat"`
}

func vcSet(xs []string) string {
	c := append([]string{}, xs...)
	sort.Strings(c)
	return strings.Join(c, ",")
}

type vcReplayer struct {
	cfg   vcCfg
	w     *vcWorld
	accT  map[string][2]time.Time // acceptance bracket per bundle name
	hist  []vcStep
	n     int
	steps int
	// successful transmissions of a bundle to a peer while the bundle has been in the store without interruption
	okSent    map[string]bool
	late      bool
	stepT0    time.Time // when the current event was injected
	memChecks int
	foreign   bool // a divergence that concerns other properties only was seen in this step
	races     int
	// forced interleavings of concurrent failure reports (two store updates of one record)
	gatedSteps, gateHits int
}

// memOf reads the algorithm's memory of the peers that have the bundle called name already (as peer names).
func vhHasStr(xs []string, x string) bool {
	for _, y := range xs {
		if y == x {
			return true
		}
	}
	return false
}

// innerAlgo: the algorithm that keeps the memory (the one the sensor-mule wrapper wraps, if there is a wrapper).
func (r *vcReplayer) innerAlgo() Algorithm {
	if snm, ok := r.w.c.routing.(*SensorNetworkMuleRouting); ok {
		return snm.algorithm
	}
	return r.w.c.routing
}

// innerName: Core.tla's name of that algorithm.
func (r *vcReplayer) innerName() string {
	switch r.cfg.Algo {
	case "mule":
		return "epidemic"
	case "mule_spray":
		return "spray"
	case "mule_binary_spray":
		return "binary_spray"
	}
	return r.cfg.Algo
}

func (r *vcReplayer) memOf(name string) (peers []string, has bool) {
	var eids []bpv7.EndpointID
	switch a := r.innerAlgo().(type) {
	case *SprayAndWait, *BinarySpray:
		var data map[bpv7.BundleID]sprayMetaData
		var mu *sync.RWMutex
		if x, ok := a.(*SprayAndWait); ok {
			data, mu = x.bundleData, &x.dataMutex
		} else {
			y := a.(*BinarySpray)
			data, mu = y.bundleData, &y.dataMutex
		}
		found, _, seq, _ := r.w.lookup(name)
		if !found {
			return nil, false
		}
		oid := r.w.orig[name].ID()
		if r.cfg.Cat[name].Origin == "app" {
			oid.Timestamp[1] = uint64(seq)
		}
		mu.RLock()
		md, ok := data[oid]
		eids = append(eids, md.sent...)
		mu.RUnlock()
		if !ok {
			return nil, false
		}
	default:
		key := "routing/" + r.innerName() + "/sent"
		found, _, seq, _ := r.w.lookup(name)
		if !found {
			return nil, false
		}
		oid := r.w.orig[name].ID()
		if r.cfg.Cat[name].Origin == "app" {
			oid.Timestamp[1] = uint64(seq)
		}
		bi, err := r.w.c.store.QueryId(oid)
		if err != nil {
			return nil, false
		}
		eids, _ = bi.Properties[key].([]bpv7.EndpointID)
	}
	seen := map[string]bool{}
	for _, e := range eids {
		n := strings.TrimSuffix(strings.TrimPrefix(e.String(), "dtn://"), "/")
		if !seen[n] {
			seen[n] = true
			peers = append(peers, n)
		}
	}
	return peers, true
}

// copiesOf reads the spray-and-wait copy counter of the bundle called name.
func (r *vcReplayer) copiesOf(name string) (int, bool) {
	var data map[bpv7.BundleID]sprayMetaData
	var mu *sync.RWMutex
	switch a := r.innerAlgo().(type) {
	case *SprayAndWait:
		data, mu = a.bundleData, &a.dataMutex
	case *BinarySpray:
		data, mu = a.bundleData, &a.dataMutex
	default:
		return 0, false
	}
	mu.RLock()
	defer mu.RUnlock()
	ob := r.w.orig[name]
	for id, md := range data {
		oid := ob.ID()
		if r.cfg.Cat[name].Origin == "app" {
			oid.Timestamp[1] = id.Timestamp[1]
		}
		if id == oid {
			// several submitted bundles may share source and time: tell them apart by the stored payload
			if r.cfg.Cat[name].Tsg > 0 {
				found, _, seq, _ := r.w.lookup(name)
				if !found {
					return 0, false // released from the store: its counter cannot be told from those of its group any more
				}
				if uint64(seq) != id.Timestamp[1] {
					continue
				}
			}
			return int(md.remainingCopies), true
		}
	}
	return 0, false
}

// viol records a divergence. It returns true if the divergence concerns the property this run is about (or cannot be attributed):
// the behaviour ends there. A divergence that belongs to other properties only is recorded as well, but the remaining
// comparisons of the step are still made (they may show something that does concern this property); the behaviour then
// ends with the step.
func (r *vcReplayer) viol(prop, key, desc string, extra vhRec) bool {
	own := strings.HasPrefix(r.cfg.Prop, "G-") || prop == r.cfg.Prop
	for _, p := range strings.Split(prop, "+") {
		if p == r.cfg.Prop {
			own = true
		}
	}
	if !own {
		r.foreign = true
	}
	rec := vhRec{"cfg": r.cfg, "history": r.hist[:r.n+1]}
	for k, v := range extra {
		rec[k] = v
	}
	s := r.hist[r.n]
	vhViol(prop+":"+key, fmt.Sprintf("[%s] step %d (%s %s%s): %s", r.cfg.Algo, r.n, s.Act, s.B, s.P, desc), rec)
	return own
}

// rel names the listed properties whose statement covers a divergence of the given kind (joined by "+"); a check raises an
// alarm only for divergences that concern its own property, the others are recorded as belonging elsewhere. Growth runs
// (property names starting with "G-") take every divergence.
//
//	stored-lost      an accepted, unexpired bundle is gone                          C05 (C14 for same-instant submissions)
//	stored-kept      a bundle that had to be refused (hop limit, lifetime, block)    C06; a DTLSR unicast not released: C20;
//	                 a bundle handed to a local client and not released (it will be handed over again): C07
//	pending          not marked for retry                                            C05
//	sends-missing    destination connected / epidemic spread / DTLSR broadcast       C05; C20 (broadcast); otherwise nobody's
//	sends-refused    transmitted although it had to be refused                      C06
//	sends-extra-served  offered to the previous node or to a peer that has it       C13 (+ C18 spray, + C20 broadcast)
//	sends-extra      offered to a peer the algorithm's rule excludes                 C18 (budget), C19 (gate), C20 (table), else C13
//	memory-extra / memory-missing   wrong note of who has the bundle               as the missing / repeated transmission it leads to
//	deliveries       handed to the local agent wrongly / not at all                  C07 + C15
//	deadlock         the node stops processing events                                C05 + C07
func (r *vcReplayer) rel(kind, b string) string {
	if strings.HasPrefix(r.cfg.Prop, "G-") {
		return r.cfg.Prop
	}
	algo := r.innerName()
	spray := algo == "spray" || algo == "binary_spray"
	a := r.cfg.Cat[b]
	refusable := (len(a.Hop) == 2 && a.Hop[1]+1 > a.Hop[0]) || (a.Life == "short" && r.late) || (a.HasUnk && vcHas(a.UnkF, "delete"))
	var ps []string
	switch kind {
	case "stored-lost":
		ps = []string{"C05"}
		if a.Origin == "app" && a.Tsg > 0 {
			ps = append(ps, "C14")
		}
	case "stored-kept":
		if refusable {
			ps = []string{"C06"}
		} else if a.Dst == "app" || a.Dst == "late" {
			ps = []string{"C07"} // handed to the local client but not released: it will be handed over again with every retry
		} else if algo == "dtlsr" && a.Dst != "bcast" {
			ps = []string{"C20"}
		}
	case "pending":
		ps = []string{"C05"}
	case "sends-missing-direct":
		ps = []string{"C05"}
	case "sends-missing":
		// only two statements demand a transmission: C05 (epidemic: every connected peer that lacks the bundle) and C20 (a DTLSR
		// broadcast goes once to every peer); PRoPHET's gate, spray's budget and DTLSR's unicast rule only forbid
		switch {
		case algo == "epidemic" || algo == "mule":
			ps = []string{"C05"}
		case algo == "dtlsr" && a.Dst == "bcast":
			ps = []string{"C20"}
		}
	case "sends-refused":
		ps = []string{"C06"}
	case "sends-extra-served": // offered to the node it came from, or again to a peer that has it
		ps = []string{"C13"}
		if spray {
			ps = append(ps, "C18")
		}
		if algo == "dtlsr" && a.Dst == "bcast" {
			ps = append(ps, "C20")
		}
	case "sends-extra": // offered to a peer the algorithm's own rule excludes
		switch {
		case spray:
			ps = []string{"C18"}
		case algo == "prophet":
			ps = []string{"C19"}
		case algo == "dtlsr":
			ps = []string{"C20"}
		default:
			ps = []string{"C13"}
		}
	case "memory-extra": // remembers a peer as served that was not: that peer will be passed over
		switch {
		case algo == "epidemic" || algo == "mule":
			ps = []string{"C05"}
		case algo == "dtlsr" && a.Dst == "bcast":
			ps = []string{"C20"}
		}
	case "memory-missing": // forgot a peer that has the bundle: it will be served again
		ps = []string{"C13"}
		if spray {
			ps = append(ps, "C18")
		}
	case "deliveries":
		ps = []string{"C07", "C15"}
	case "deadlock":
		ps = []string{"C05", "C07"}
	}
	if len(ps) == 0 {
		return "none"
	}
	return strings.Join(ps, "+")
}

func vcHas(xs []string, x string) bool {
	for _, y := range xs {
		if y == x {
			return true
		}
	}
	return false
}

// checkFaithful: C06 on one transmitted bundle.
func (r *vcReplayer) checkFaithful(sd vcSent, exp *vcSendExp) bool {
	a, ok := r.cfg.Cat[sd.Name]
	if !ok {
		return true
	}
	orig := r.w.orig[sd.Name]
	tb := sd.Bundle
	bad := func(key, desc string) bool {
		// (false = the behaviour ends here; a divergence that only concerns another property lets the step go on)
		return !r.viol("C06", "forward/"+key, fmt.Sprintf("bundle %s sent to %s: %s", sd.Name, sd.Peer, desc), vhRec{"sent_bytes": fmt.Sprintf("%x", sd.Bytes), "accepted_bytes": fmt.Sprintf("%x", r.w.origB[sd.Name])})
	}
	if len(tb.CanonicalBlocks) == 0 {
		return bad("unparsable", "transmitted bytes do not parse as a valid bundle: "+sd.Name)
	}
	op, tp := orig.PrimaryBlock, tb.PrimaryBlock
	op.CRC, tp.CRC = nil, nil
	if a.Origin == "app" {
		op.CreationTimestamp[1], tp.CreationTimestamp[1] = 0, 0
	}
	if fmt.Sprint(op) != fmt.Sprint(tp) || op.CRCType != tp.CRCType {
		return bad("primary-block-changed", fmt.Sprintf("primary block %v became %v", op, tp))
	}
	if !bytes.Equal(vcPayloadOf(orig), vcPayloadOf(tb)) {
		return bad("payload-changed", "payload differs")
	}
	ser := func(cb bpv7.CanonicalBlock) string {
		var buf bytes.Buffer
		cb.CRC = nil
		_ = cb.MarshalCbor(&buf)
		return fmt.Sprintf("%x", buf.Bytes())
	}
	seenTypes := map[uint64]bool{}
	for _, cb := range tb.CanonicalBlocks {
		t := cb.TypeCode()
		seenTypes[t] = true
		ocb, oerr := orig.ExtensionBlock(t)
		switch t {
		case bpv7.ExtBlockTypePayloadBlock:
		case bpv7.ExtBlockTypePreviousNodeBlock:
			if e := cb.Value.(*bpv7.PreviousNodeBlock).Endpoint(); e.String() != vcNode {
				return bad("previous-node", "previous node block names "+e.String())
			}
		case bpv7.ExtBlockTypeHopCountBlock:
			h := cb.Value.(*bpv7.HopCountBlock)
			if oerr != nil {
				return bad("block-added", "hop count block added")
			}
			oh := ocb.Value.(*bpv7.HopCountBlock)
			if h.Limit != oh.Limit || int(h.Count) != int(oh.Count)+1 {
				return bad("hop-count", fmt.Sprintf("hop count received %d/%d, transmitted %d/%d", oh.Count, oh.Limit, h.Count, h.Limit))
			}
		case bpv7.ExtBlockTypeBundleAgeBlock:
			if oerr != nil {
				return bad("block-added", "bundle age block added")
			}
			oa := ocb.Value.(*bpv7.BundleAgeBlock).Age()
			ta := cb.Value.(*bpv7.BundleAgeBlock).Age()
			// the node noted the reception somewhere between the start and the end of the accepting call: the residence
			// time at the moment of this transmission lies between these two bounds
			br := r.accT[sd.Name]
			// (the node reads the clock for the age some store operations before the convergence layer is called, but not
			// before the event that causes this transmission was injected)
			minRes, maxRes := int64(r.stepT0.Sub(br[1])/time.Millisecond)-5, int64(sd.At.Sub(br[0])/time.Millisecond)+25
			if minRes < 0 {
				minRes = 0
			}
			if ta < oa || int64(ta-oa) > maxRes || int64(ta-oa) < minRes {
				return bad("bundle-age", fmt.Sprintf("bundle age was %d ms on arrival, %d ms on transmission, but the bundle had stayed between %d and %d ms", oa, ta, minRes, maxRes))
			}
		case bpv7.ExtBlockTypeBinarySprayBlock:
			if r.innerName() != "binary_spray" {
				if oerr != nil || ser(*ocb) != ser(cb) {
					return bad("block-changed", "binary spray block changed by an algorithm that does not own it")
				}
			}
		default:
			if oerr != nil {
				return bad("block-added", fmt.Sprintf("block of type %d added", t))
			}
			if ser(*ocb) != ser(cb) {
				return bad("block-changed", fmt.Sprintf("block of type %d changed", t))
			}
			if (t == 222 || t == 223 || t == 224) && cb.BlockControlFlags.Has(bpv7.RemoveBlock) {
				return bad("unsupported-block-not-removed", "an unsupported block flagged for removal was transmitted")
			}
		}
	}
	if !seenTypes[bpv7.ExtBlockTypePreviousNodeBlock] {
		return bad("previous-node", "no previous node block")
	}
	for _, ocb := range orig.CanonicalBlocks {
		t := ocb.TypeCode()
		if seenTypes[t] {
			continue
		}
		if (t == 222 || t == 223 || t == 224) && ocb.BlockControlFlags.Has(bpv7.RemoveBlock) {
			continue
		}
		return bad("block-lost", fmt.Sprintf("block of type %d is missing", t))
	}
	_ = a
	return true
}

// collectReports decodes status reports that exist now and were not seen before.
func (r *vcReplayer) collectReports(sends []vcSent) (out []vcReportExp, ok bool) {
	ok = true
	var cands []bpv7.Bundle
	for _, s := range sends {
		if s.Name == "admin" {
			cands = append(cands, s.Bundle)
		}
	}
	if bis, err := r.w.c.store.QueryPending(); err == nil {
		for _, bi := range bis {
			if len(bi.Parts) == 0 {
				continue
			}
			if b, err := bi.Parts[0].Load(); err == nil && b.IsAdministrativeRecord() {
				cands = append(cands, b)
			}
		}
	}
	// a report addressed to an endpoint of this node that no agent registered is stored without the pending flag: where the catalogue
	// has such a report-to, every stored part is looked at (the store keeps one file per part below its directory)
	scanAll := false
	for _, a := range r.w.cat {
		if a.RptNoAgent {
			scanAll = true
		}
	}
	if scanAll {
		_ = filepath.Walk(r.w.dir, func(path string, info os.FileInfo, err error) error {
			if err != nil || info.IsDir() || info.Size() == 0 || info.Size() > 1<<20 {
				return nil
			}
			if f, fErr := os.Open(path); fErr == nil {
				var b bpv7.Bundle
				if b.UnmarshalCbor(bufio.NewReader(f)) == nil && b.IsAdministrativeRecord() {
					cands = append(cands, b)
				}
				_ = f.Close()
			}
			return nil
		})
	}
	for _, b := range cands {
		if strings.HasPrefix(b.PrimaryBlock.SourceNode.String(), "dtn://src-") { // an administrative record from the catalogue, not ours
			continue
		}
		// reports are compared modulo the sequence number the node assigns at transmission
		idk := fmt.Sprintf("%v|%v|%v", b.PrimaryBlock.SourceNode, b.PrimaryBlock.CreationTimestamp.DtnTime(), fmt.Sprintf("%x", vcPayloadOf(b)))
		if r.w.seenReports[idk] {
			continue
		}
		r.w.seenReports[idk] = true
		ar, err := b.AdministrativeRecord()
		if err != nil {
			if r.viol("C15", "report/undecodable", "administrative record does not decode: "+err.Error(), nil) {
				return nil, false
			}
			continue
		}
		sr, isSr := ar.(*bpv7.StatusReport)
		if !isSr {
			continue
		}
		name := ""
		for n := range r.cfg.Cat {
			ob := r.w.orig[n]
			oid := ob.ID()
			rid := sr.RefBundle
			if r.cfg.Cat[n].Origin == "app" {
				oid.Timestamp[1], rid.Timestamp[1] = 0, 0
			}
			if oid.SourceNode == rid.SourceNode && oid.Timestamp == rid.Timestamp {
				name = n
				if oid != rid {
					if r.viol("C15", "report/wrong-bundle-id", fmt.Sprintf("report about %s names %v instead of %v", n, sr.RefBundle, ob.ID()), nil) {
						return nil, false
					}
					continue
				}
			}
		}
		if name == "" {
			if r.viol("C15", "report/unknown-subject", fmt.Sprintf("status report about an unknown bundle %v: %v, report bundle %v", sr.RefBundle, sr, b), nil) {
				return nil, false
			}
			continue
		}
		subj := r.w.orig[name]
		if b.PrimaryBlock.BundleControlFlags != bpv7.AdministrativeRecordPayload {
			if r.viol("C15", "report/flags", fmt.Sprintf("report bundle carries flags %v", b.PrimaryBlock.BundleControlFlags), nil) {
				return nil, false
			}
			continue
		}
		if b.PrimaryBlock.Destination != subj.PrimaryBlock.ReportTo {
			if r.viol("C15", "report/destination", fmt.Sprintf("report about %s addressed to %v, report-to is %v", name, b.PrimaryBlock.Destination, subj.PrimaryBlock.ReportTo), nil) {
				return nil, false
			}
			continue
		}
		if !b.PrimaryBlock.SourceNode.SameNode(bpv7.MustNewEndpointID(vcNode)) {
			if r.viol("C15", "report/source", fmt.Sprintf("report source %v is not an endpoint of this node", b.PrimaryBlock.SourceNode), nil) {
				return nil, false
			}
			continue
		}
		kinds := sr.StatusInformations()
		if len(kinds) != 1 {
			if r.viol("C15", "report/assertions", fmt.Sprintf("report asserts %d status items", len(kinds)), nil) {
				return nil, false
			}
			continue
		}
		item := sr.StatusInformation[int(kinds[0])]
		wantTime := subj.PrimaryBlock.BundleControlFlags.Has(bpv7.RequestStatusTime)
		if (item.Time != 0) != wantTime || item.StatusRequested != wantTime {
			if r.viol("C15", "report/time", fmt.Sprintf("report about %s: time present=%v, requested=%v", name, item.Time != 0, wantTime), nil) {
				return nil, false
			}
			continue
		}
		kind := map[bpv7.StatusInformationPos]string{bpv7.ReceivedBundle: "received", bpv7.ForwardedBundle: "forwarded", bpv7.DeliveredBundle: "delivered", bpv7.DeletedBundle: "deleted"}[kinds[0]]
		reason := map[bpv7.StatusReportReason]string{bpv7.NoInformation: "none", bpv7.HopLimitExceeded: "hop", bpv7.LifetimeExpired: "expired", bpv7.BlockUnsupported: "unsupported"}[sr.ReportReason]
		if reason == "" {
			reason = fmt.Sprintf("code-%d", sr.ReportReason)
		}
		out = append(out, vcReportExp{B: name, Kind: kind, Reason: reason})
	}
	return
}

func (r *vcReplayer) run() string {
	w := r.w
	for n := range r.hist {
		r.n = n
		s := r.hist[n]
		var err error
		t0 := time.Now()
		r.stepT0 = t0
		if !r.late {
			// a short-lived bundle must not run out before the Advance action says so: under heavy load the behaviour is
			// abandoned rather than judged (counted; too many of these make the run inconclusive)
			for _, e := range w.shortExp {
				if time.Until(e) < 300*time.Millisecond {
					return "timing"
				}
			}
		}
		fails := map[string]int{}
		for _, e := range s.Exp.Sends {
			if !e.Ok && !e.Direct {
				fails[e.B]++
			}
		}
		gated := false
		var gateKeys []string
		for b, n := range fails {
			if n >= 2 {
				gated = true
				id := r.w.orig[b].ID().Scrub().String()
				gateKeys = append(gateKeys, id[:strings.LastIndex(id, "-")+1]) // without the sequence number the node may have assigned
			}
		}
		if gated {
			vcArmUpdateGate(gateKeys)
			r.gatedSteps++
		}
		switch s.Act {
		case "Submit":
			err = w.submit(s.B)
			r.accT[s.B] = [2]time.Time{t0, time.Now()}
		case "Receive":
			_, seen := r.accT[s.B]
			known, _, _, _ := w.lookup(s.B)
			if !seen || !known {
				r.accT[s.B] = [2]time.Time{t0, t0}
			}
			err = w.receive(s.B)
			if !seen || !known {
				r.accT[s.B] = [2]time.Time{t0, time.Now()}
			}
		case "Race":
			r.accT[s.B] = [2]time.Time{t0, t0}
			r.accT[s.D] = [2]time.Time{t0, t0}
			err = w.race(s.B, s.D)
			r.accT[s.B] = [2]time.Time{t0, time.Now()}
			r.accT[s.D] = [2]time.Time{t0, time.Now()}
			r.races++
		case "PeerUp":
			err = w.peerUp(s.P)
		case "PeerDown":
			err = w.peerDown(s.P)
		case "SetFail":
			var v bool
			_ = json.Unmarshal(s.V, &v)
			w.setFail(s.P, v)
		case "RetryTick":
			w.c.checkPendingBundles()
		case "CleanTick":
			w.c.store.DeleteExpired()
		case "Advance":
			for n, a := range r.cfg.Cat {
				if a.Life == "short" {
					w.build(n)
				}
			}
			for _, e := range w.shortExp {
				if d := time.Until(e.Add(150 * time.Millisecond)); d > 0 {
					time.Sleep(d)
				}
			}
			r.late = true
		case "Register":
			w.registerLate()
			err = w.barrier()
		case "Restart":
			err = w.restart()
		case "Vector":
			err = r.vector(s)
		case "Learn":
			p := w.peers[s.P]
			blk := bpv7.NewDTLSRBlock(bpv7.DTLSRPeerData{ID: p.eid, Timestamp: bpv7.DtnTimeNow(), Peers: map[bpv7.EndpointID]bpv7.DtnTime{bpv7.MustNewEndpointID("dtn://far/"): 0}})
			w.barrierN++
			lsa, berr := bpv7.Builder().BundleCtrlFlags(bpv7.MustNotFragmented).Source(p.eid).Destination(dtlsrBroadcastAddress).
				CreationTimestampTime(w.base.Add(time.Duration(w.barrierN)*time.Millisecond + 3*time.Hour)).Lifetime("1h").PayloadBlock([]byte("lsa")).Canonical(blk).Build()
			if berr != nil {
				err = berr
				break
			}
			if err = vcInject(p.ch, cla.NewConvergenceReceivedBundle(p, bpv7.DtnNone(), &lsa)); err == nil {
				err = w.barrierVia(p.ch, p)
			}
		case "Recompute":
			if d, ok := w.c.routing.(*DTLSR); ok {
				d.dataMutex.Lock()
				d.computeRoutingTable()
				d.dataMutex.Unlock()
			}
		default:
			vhEmit(vhRec{"k": "infra", "v": "unknown action " + s.Act})
			return "infra"
		}
		if gated {
			r.gateHits += vcDisarmUpdateGate(gateKeys)
		}
		if err != nil {
			if strings.HasPrefix(err.Error(), "deadlock") {
				if r.viol(r.rel("deadlock", ""), "core/"+s.Act+"/deadlock", err.Error(), vhRec{"goroutines_after_20s": w.stacks}) {
					return "viol"
				}
			}
			if strings.HasPrefix(err.Error(), "timing") {
				return "timing"
			}
			vhEmit(vhRec{"k": "infra", "v": fmt.Sprintf("%s: %v", s.Act, err)})
			return "infra"
		}
		// a delivery is recorded by the client's own goroutine, after the multiplexer's goroutine handed it over: both may lag behind
		// the handler (RetryTick returns once the multiplexer has taken the message). Expected deliveries are waited for; one that
		// never comes is still missing after the wait
		for t0 := time.Now(); time.Since(t0) < 3*time.Second; time.Sleep(200 * time.Microsecond) {
			w.mu.Lock()
			n := len(w.delivered)
			w.mu.Unlock()
			if n >= len(s.Exp.Delivered) {
				break
			}
		}
		sends, delivered := w.takeOutputs()
		// --- every transmitted catalogue bundle must be a faithful copy (C06)
		expSend := map[string]*vcSendExp{}
		for i := range s.Exp.Sends {
			e := &s.Exp.Sends[i]
			expSend[e.B+">"+e.P] = e
		}
		for _, sd := range sends {
			if _, ok := r.cfg.Cat[sd.Name]; ok {
				if !r.checkFaithful(sd, expSend[sd.Name+">"+sd.Peer]) {
					return "viol"
				}
			} else if sd.Name != "admin" && sd.Name != "metadata" {
				if r.viol("C06", "forward/unparsable", "transmitted bytes are not a valid bundle: "+sd.Name, vhRec{"bytes": fmt.Sprintf("%x", sd.Bytes)}) {
					return "viol"
				}
			}
		}
		// --- sends chosen by the node
		obsT, expT := map[string][]string{}, map[string][]string{}
		obsAll := map[string]bool{}
		for _, sd := range sends {
			if _, ok := r.cfg.Cat[sd.Name]; !ok {
				continue
			}
			obsAll[sd.Name+">"+sd.Peer] = true
			obsT[sd.Name] = append(obsT[sd.Name], sd.Peer)
		}
		for _, e := range s.Exp.Sends {
			expT[e.B] = append(expT[e.B], e.P)
		}
		twin := false
		for b := range r.cfg.Cat {
			if vcSet(obsT[b]) == vcSet(expT[b]) {
				continue
			}
			// the algorithm may have taken another admissible choice (the order in which it visits its peers is not specified)
			adm := false
			for _, ch := range s.Choices[b] {
				if len(expT[b]) > 0 && !expSend[b+">"+expT[b][0]].Direct && vcSet(ch) == vcSet(obsT[b]) {
					adm = true
				}
				// sensor-mule around spray: the wrapped algorithm may have picked sensors only, which leaves no transmission at all
				if (r.cfg.Algo == "mule_spray" || r.cfg.Algo == "mule_binary_spray") && len(expT[b]) == 0 && len(ch) > 0 && vcSet(ch) == vcSet(obsT[b]) {
					adm = true
				}
			}
			if adm {
				twin = true
				continue
			}
			key := "core/" + s.Act + "/sends"
			desc := fmt.Sprintf("bundle %s: expected transmissions to {%s}, observed {%s}", b, vcSet(expT[b]), vcSet(obsT[b]))
			// what kind of divergence: a transmission that is missing, or one that must not happen
			kind := "sends-extra"
			em, om := map[string]bool{}, map[string]bool{}
			for _, p := range expT[b] {
				em[p] = true
			}
			for _, p := range obsT[b] {
				om[p] = true
			}
			extra := false
			for p := range om {
				if !em[p] {
					extra = true
					if p == r.cfg.Cat[b].Prev || r.okSent[b+">"+p] {
						kind = "sends-extra-served"
					}
				}
			}
			if extra && len(expT[b]) == 0 && r.rel("stored-kept", b) == "C06" {
				kind = "sends-refused"
			} else if !extra {
				kind = "sends-missing"
				for p := range em {
					if !om[p] && expSend[b+">"+p].Direct {
						kind = "sends-missing-direct"
					}
				}
			}
			if r.viol(r.rel(kind, b), key, desc, vhRec{"observed_sends": obsT, "kind": kind}) {
				return "viol"
			}
		}
		if twin {
			return "twin"
		}
		for _, sd := range sends {
			e := expSend[sd.Name+">"+sd.Peer]
			if e == nil {
				continue
			}
			if e.Ok != sd.Ok {
				vhEmit(vhRec{"k": "infra", "v": "scripted send outcome differs"})
				return "infra"
			}
			if r.cfg.Cat[sd.Name].Origin == "app" {
				if got := int(sd.Bundle.PrimaryBlock.CreationTimestamp.SequenceNumber()); got != e.Seq {
					if r.viol("C14", "id/wire-sequence-number", fmt.Sprintf("bundle %s transmitted with sequence number %d, assigned %d", sd.Name, got, e.Seq), nil) {
						return "viol"
					}
				}
			}
			if r.innerName() == "binary_spray" && !e.Direct {
				cb, err := sd.Bundle.ExtensionBlock(bpv7.ExtBlockTypeBinarySprayBlock)
				got := -1
				if err == nil {
					got = int(cb.Value.(*bpv7.BinarySprayBlock).RemainingCopies())
				}
				if got != e.Ann {
					if r.viol("C18", "spray/announced-copies", fmt.Sprintf("bundle %s to %s announces %d copies, expected %d", sd.Name, sd.Peer, got, e.Ann), nil) {
						return "viol"
					}
				}
			}
		}
		// --- C13, judged directly on the transmissions chosen by the algorithm
		for _, sd := range sends {
			a, isCat := r.cfg.Cat[sd.Name]
			e := expSend[sd.Name+">"+sd.Peer]
			if !isCat || (e != nil && e.Direct) || a.Dst == sd.Peer {
				continue
			}
			if r.cfg.Algo == "dtlsr" && a.Dst != "bcast" {
				continue // the property speaks of replicating algorithms: DTLSR only for its broadcast bundles (unicast follows the table)
			}
			if a.Prev == sd.Peer {
				if r.viol("C13", "select/sent-back-to-previous-node", fmt.Sprintf("bundle %s was offered to %s, the node it came from", sd.Name, sd.Peer), nil) {
					return "viol"
				}
			}
			if r.okSent[sd.Name+">"+sd.Peer] {
				if r.viol("C13", "select/sent-twice", fmt.Sprintf("bundle %s was offered to %s again after a successful transmission while still stored", sd.Name, sd.Peer), nil) {
					return "viol"
				}
			}
		}
		for _, sd := range sends {
			if sd.Ok {
				r.okSent[sd.Name+">"+sd.Peer] = true
			}
		}
		// --- C18: the algorithm's copy counter
		if r.innerName() == "spray" || r.innerName() == "binary_spray" {
			for name, want := range s.Exp.Copies {
				got, has := r.copiesOf(name)
				if !has && r.cfg.Cat[name].Tsg > 0 {
					if found, _, _, _ := r.w.lookup(name); !found {
						continue
					}
				}
				if !has || got != want {
					if r.viol("C18", "spray/copy-count", fmt.Sprintf("bundle %s: the node holds %d copies (known: %v), expected %d", name, got, has, want), nil) {
						return "viol"
					}
				}
			}
		}
		// --- the algorithm's memory of who has which bundle (a wrong mark shows at once, not only when a later contact is missed)
		for name, want := range s.Exp.Mem {
			got, has := r.memOf(name)
			if !has {
				continue // not stored (reported by the store comparison below)
			}
			// peers only: the code also notes other node IDs (e.g. the bundle's source) that no peer of this world bears
			var gp []string
			for _, g := range got {
				if _, isPeer := r.w.peers[g]; isPeer {
					gp = append(gp, g)
				}
			}
			r.memChecks++
			if vcSet(gp) != vcSet(want) {
				mk := "memory-extra"
				wm := map[string]bool{}
				for _, x := range want {
					wm[x] = true
				}
				gm := map[string]bool{}
				for _, x := range gp {
					gm[x] = true
				}
				for x := range wm {
					if !gm[x] {
						mk = "memory-missing"
					}
				}
				if r.viol(r.rel(mk, name), "core/"+s.Act+"/routing-memory", fmt.Sprintf("bundle %s: the algorithm remembers {%s} as having it, expected {%s}", name, vcSet(gp), vcSet(want)), nil) {
					return "viol"
				}
			}
		}
		// --- deliveries
		var dl []string
		for _, d := range delivered {
			dl = append(dl, d)
		}
		if vcSet(dl) != vcSet(s.Exp.Delivered) {
			if r.viol(r.rel("deliveries", ""), "core/"+s.Act+"/deliveries", fmt.Sprintf("expected local deliveries {%s}, observed {%s}", vcSet(s.Exp.Delivered), vcSet(dl)), nil) {
				return "viol"
			}
		}
		// --- reports
		reps, ok := r.collectReports(sends)
		if !ok {
			return "viol"
		}
		rk := func(x vcReportExp) string { return x.B + "/" + x.Kind + "/" + x.Reason }
		var obsR, expR []string
		for _, x := range reps {
			obsR = append(obsR, rk(x))
		}
		okObs := map[string]bool{}
		for _, sd := range sends {
			if sd.Ok {
				okObs[sd.Name] = true
			}
		}
		for _, x := range s.Exp.Reports {
			if x.Kind == "forwarded" && !okObs[x.B] && !vhHasStr(obsR, rk(x)) {
				// the transmission the model expects did not take place (a divergence judged above, under the property it concerns):
				// no forwarding happened, so no report of one is what C15 asks for
				continue
			}
			expR = append(expR, rk(x))
		}
		if vcSet(obsR) != vcSet(expR) {
			cls := "unexpected"
			em := map[string]bool{}
			for _, x := range expR {
				em[x] = true
			}
			first := ""
			for _, x := range obsR {
				if !em[x] {
					first = x
				}
			}
			if first == "" {
				cls = "missing"
				om := map[string]bool{}
				for _, x := range obsR {
					om[x] = true
				}
				for _, x := range expR {
					if !om[x] {
						first = x
					}
				}
			}
			parts := strings.Split(first, "/")
			if r.viol("C15", "report/"+cls+"/"+strings.Join(parts[1:], "-"), fmt.Sprintf("expected status reports {%s}, observed {%s}", vcSet(expR), vcSet(obsR)), nil) {
				return "viol"
			}
		}
		// --- store
		var stored, pending []string
		for name := range r.cfg.Cat {
			found, pend, seq, dup := w.lookup(name)
			if dup {
				if r.viol("C14", "id/stored-twice", "bundle "+name+" is filed under two IDs", nil) {
					return "viol"
				}
			}
			if found {
				stored = append(stored, name)
				if pend {
					pending = append(pending, name)
				}
				if want, ok := s.Exp.Seq[name]; ok && r.cfg.Cat[name].Origin == "app" && want != seq {
					if r.viol("C14", "id/stored-sequence-number", fmt.Sprintf("bundle %s is filed under sequence number %d, assigned %d", name, seq, want), nil) {
						return "viol"
					}
				}
			}
		}
		inStore := map[string]bool{}
		for _, n := range stored {
			inStore[n] = true
		}
		for k := range r.okSent {
			if !inStore[strings.SplitN(k, ">", 2)[0]] {
				delete(r.okSent, k)
			}
		}
		if vcSet(stored) != vcSet(s.Exp.Stored) {
			cls := "lost"
			if len(stored) > len(s.Exp.Stored) {
				cls = "kept"
			}
			// the bundle the stores differ in decides whom this concerns
			es, os2 := map[string]bool{}, map[string]bool{}
			for _, n := range s.Exp.Stored {
				es[n] = true
			}
			for _, n := range stored {
				os2[n] = true
			}
			subject, kind := "", "stored-kept"
			for n := range os2 {
				if !es[n] {
					subject = n
				}
			}
			for n := range es {
				if !os2[n] {
					subject, kind = n, "stored-lost"
				}
			}
			if r.viol(r.rel(kind, subject), "core/"+s.Act+"/stored-"+cls, fmt.Sprintf("expected store {%s}, observed {%s}", vcSet(s.Exp.Stored), vcSet(stored)), vhRec{"kind": kind, "subject": subject}) {
				return "viol"
			}
		}
		if vcSet(pending) != vcSet(s.Exp.Pending) {
			if r.viol(r.rel("pending", ""), "core/"+s.Act+"/pending", fmt.Sprintf("expected pending {%s}, observed {%s}", vcSet(s.Exp.Pending), vcSet(pending)), nil) {
				return "viol"
			}
		}
		if r.foreign {
			return "viol" // recorded for the properties it concerns; nothing after it can be judged
		}
		r.steps++
	}
	return "ok"
}

// vector: peer p (connected) delivers a PRoPHET summary vector in which destination d has the given level.
func (r *vcReplayer) vector(s vcStep) error {
	var level int
	_ = json.Unmarshal(s.V, &level)
	w := r.w
	p := w.peers[s.P]
	val := map[int]float64{0: 0, 1: 0.25, 2: 0.5, 3: 0.75}[level]
	dst := "dtn://" + s.D + "/"
	// the whole vector of the peer: keep what it advertised before
	pr, _ := w.c.routing.(*Prophet)
	vec := map[bpv7.EndpointID]float64{}
	if pr != nil {
		pr.dataMutex.RLock()
		for k, v := range pr.peerPredictabilities[p.eid] {
			vec[k] = v
		}
		pr.dataMutex.RUnlock()
	}
	if level == 0 {
		delete(vec, bpv7.MustNewEndpointID(dst))
	} else {
		vec[bpv7.MustNewEndpointID(dst)] = val
	}
	w.barrierN++
	b, err := bpv7.Builder().Source(p.eid).Destination(vcNode).CreationTimestampTime(w.base.Add(time.Duration(w.barrierN)*time.Millisecond + 2*time.Hour)).
		Lifetime("1h").BundleCtrlFlags(bpv7.MustNotFragmented).PayloadBlock([]byte("vector")).Canonical(bpv7.NewProphetBlock(vec)).Build()
	if err != nil {
		return err
	}
	if err := vcInject(p.ch, cla.NewConvergenceReceivedBundle(p, bpv7.DtnNone(), &b)); err != nil {
		return err
	}
	return w.barrierVia(p.ch, p)
}

func TestVerifCoreReplay(t *testing.T) {
	log.SetOutput(io.Discard)
	log.SetLevel(log.PanicLevel)
	if os.Getenv("VERIF_LOG") != "" { // tools/replay_core.py: show the node's own log while one counterexample is replayed
		log.SetOutput(os.Stderr)
		log.SetLevel(log.DebugLevel)
	}
	cfgs := map[int]vcCfg{}
	var items [][]byte
	if err := vhLines(os.Getenv("VERIF_IN"), func(b []byte) {
		if bytes.HasPrefix(b, []byte(`{"cfg"`)) {
			var h struct {
				Cfg vcCfg `json:"cfg"`
				W   int   `json:"w"`
			}
			if err := json.Unmarshal(b, &h); err != nil {
				t.Fatal(err)
			}
			cfgs[h.W] = h.Cfg
			return
		}
		items = append(items, b)
	}); err != nil {
		t.Fatal(err)
	}
	only := vhEnvInt("VERIF_ONLY", -1)
	skip := vhSkipSet()
	var mu sync.Mutex
	st := map[string]int{}
	vhParallel(vhEnvInt("VERIF_PAR", 8), items, func(idx int, item []byte) {
		if (only >= 0 && idx != only) || skip[idx] {
			return
		}
		var it struct {
			W int      `json:"w"`
			H []vcStep `json:"h"`
		}
		if err := json.Unmarshal(item, &it); err != nil {
			vhEmit(vhRec{"k": "infra", "v": err.Error()})
			return
		}
		for i := range it.H {
			it.H[i].Exp.Seq = map[string]int{}
			if len(it.H[i].Exp.RawSeq) > 0 && it.H[i].Exp.RawSeq[0] == '{' {
				_ = json.Unmarshal(it.H[i].Exp.RawSeq, &it.H[i].Exp.Seq)
			}
			it.H[i].Exp.Mem = map[string][]string{}
			if len(it.H[i].Exp.RawMem) > 0 && it.H[i].Exp.RawMem[0] == '{' {
				_ = json.Unmarshal(it.H[i].Exp.RawMem, &it.H[i].Exp.Mem)
			}
			it.H[i].Exp.Copies = map[string]int{}
			if len(it.H[i].Exp.RawCopies) > 0 && it.H[i].Exp.RawCopies[0] == '{' {
				_ = json.Unmarshal(it.H[i].Exp.RawCopies, &it.H[i].Exp.Copies)
			}
			it.H[i].Choices = map[string][][]string{}
			if len(it.H[i].RawCh) > 0 && it.H[i].RawCh[0] == '{' {
				_ = json.Unmarshal(it.H[i].RawCh, &it.H[i].Choices)
			}
		}
		cfg := cfgs[it.W]
		dir := filepath.Join(vhScratch(), fmt.Sprintf("core-%d", idx))
		_ = os.RemoveAll(dir)
		vhBegin(idx, only, item)
		w, err := vcNewWorld(dir, cfg.Algo, cfg.Budget, cfg.Peers, cfg.Cat)
		status := "infra"
		nsteps := 0
		if err != nil {
			vhEmit(vhRec{"k": "infra", "v": "NewCore: " + err.Error()})
		} else {
			for n, a := range cfg.Cat {
				if a.Life != "short" {
					w.build(n)
				}
			}
			r := &vcReplayer{cfg: cfg, w: w, accT: map[string][2]time.Time{}, hist: it.H, okSent: map[string]bool{}}
			status = r.run()
			nsteps = r.steps
			mu.Lock()
			st["routing_memory_comparisons"] += r.memChecks
			st["races"] += r.races
			st["gated_steps"] += r.gatedSteps
			st["gate_forced_overlaps"] += r.gateHits
			mu.Unlock()
			w.close()
		}
		_ = os.RemoveAll(dir)
		vhEnd(idx)
		mu.Lock()
		st["histories_"+status]++
		st["steps_conforming"] += nsteps
		for _, s := range it.H {
			st["act_"+s.Act]++
			st["expected_sends"] += len(s.Exp.Sends)
			st["expected_deliveries"] += len(s.Exp.Delivered)
			st["expected_reports"] += len(s.Exp.Reports)
		}
		if idx%4000 == 17 {
			vhSample(vhRec{"algo": cfg.Algo, "history": json.RawMessage(item)})
		}
		mu.Unlock()
	})
	if f := os.Getenv("VERIF_MEMPROF"); f != "" { // diagnostic: what is still referenced after all worlds were closed
		runtime.GC()
		var ms runtime.MemStats
		runtime.ReadMemStats(&ms)
		vhEmit(vhRec{"k": "note", "v": fmt.Sprintf("after GC: heap in use %d MiB, %d goroutines", ms.HeapInuse>>20, runtime.NumGoroutine())})
		if fh, err := os.Create(f); err == nil {
			_ = pprof.WriteHeapProfile(fh)
			_ = fh.Close()
		}
		if fh, err := os.Create(f + ".goroutines"); err == nil {
			_ = pprof.Lookup("goroutine").WriteTo(fh, 1)
			_ = fh.Close()
		}
	}
	for k, n := range st {
		vhStat(k, n)
	}
	vhStat("histories", len(items))
	vhDone()
}

// ---- forced overlap of two concurrent read-modify-write updates of one store record --------------------------
// When several transmissions of one bundle fail at the same moment, each failing goroutine reads the bundle's record,
// changes its copy and writes it back. The store's verif yield point at the entry of Update lets the harness hold the
// first writer (which has already read) until a second writer for the same record has read as well and written: the
// first one then writes a stale copy unless the algorithm serialises its failure reports.
var vcGate struct {
	mu      sync.Mutex
	armed   map[string]int // record key prefixes (bundle ID without sequence number) whose updates are gated -> forced overlaps
	waiting map[string]chan struct{}
}

var vcGateOnce sync.Once

func vcGatePrefix(key string) string {
	if i := strings.LastIndex(key, "-"); i >= 0 {
		return key[:i+1]
	}
	return key
}

func vcArmUpdateGate(prefixes []string) {
	vcGateOnce.Do(func() {
		vcGate.armed = map[string]int{}
		vcGate.waiting = map[string]chan struct{}{}
		storage.VerifPointHook = func(point, key string) {
			if point != "update:entry" {
				return
			}
			pre := vcGatePrefix(key)
			vcGate.mu.Lock()
			if _, ok := vcGate.armed[pre]; !ok {
				vcGate.mu.Unlock()
				return
			}
			if ch, ok := vcGate.waiting[key]; ok {
				// second writer for this record: let it write first, then release the one that is held
				delete(vcGate.waiting, key)
				vcGate.armed[pre]++
				vcGate.mu.Unlock()
				go func() {
					time.Sleep(15 * time.Millisecond)
					close(ch)
				}()
				return
			}
			ch := make(chan struct{})
			vcGate.waiting[key] = ch
			vcGate.mu.Unlock()
			select {
			case <-ch:
			case <-time.After(60 * time.Millisecond): // nobody else updates this record now (or reports are serialised)
				vcGate.mu.Lock()
				if vcGate.waiting[key] == ch {
					delete(vcGate.waiting, key)
				}
				vcGate.mu.Unlock()
			}
		}
	})
	vcGate.mu.Lock()
	for _, p := range prefixes {
		vcGate.armed[p] = 0
	}
	vcGate.mu.Unlock()
}

func vcDisarmUpdateGate(prefixes []string) (hits int) {
	vcGate.mu.Lock()
	defer vcGate.mu.Unlock()
	for _, p := range prefixes {
		hits += vcGate.armed[p]
		delete(vcGate.armed, p)
	}
	return
}
