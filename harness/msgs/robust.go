package msgs

// C04 (TCPCLv4 messages): length fields at their fixed offsets set to boundary values, truncations, every type byte.

import (
	"bytes"
	"encoding/binary"
	"encoding/json"
	"fmt"
	"os"
	"testing"
)

func TestVerifC04Tcpcl(t *testing.T) {
	n := 0
	try := func(in []byte, note string) {
		n++
		if p := vhGuard(len(in), func() { _, _ = ReadMessage(bytes.NewReader(in)) }); p != "" {
			vhViol("robust/tcpcl/"+vhClass(p), fmt.Sprintf("ReadMessage, %s: %s", note, p), vhRec{"input": fmt.Sprintf("%x", in[:vxMin(len(in), 64)]), "len": len(in), "note": note})
		}
	}
	bounds := []uint64{0, 1, 23, 24, 1 << 16, 1<<31 - 1, 1 << 31, 1<<32 - 1, 1 << 62, 1 << 63, 1<<64 - 1}
	if err := vhLines(os.Getenv("VERIF_IN"), func(raw []byte) {
		var c vxCase
		if err := json.Unmarshal(raw, &c); err != nil {
			t.Fatal(err)
		}
		if !c.Valid || c.Tail > 0 {
			return
		}
		base := c.spec()
		for i := 0; i <= len(base); i++ {
			try(base[:i], fmt.Sprintf("%s truncated at %d", c.K, i))
		}
		switch c.K {
		case "sess_init": // node id length (u16) at offset 19, session extension length (u32) behind the node id
			for _, v := range bounds {
				m := append([]byte{}, base...)
				binary.BigEndian.PutUint16(m[19:], uint16(v))
				try(m, fmt.Sprintf("sess_init node id length := %d", uint16(v)))
				m = append([]byte{}, base...)
				binary.BigEndian.PutUint32(m[len(m)-4:], uint32(v))
				try(m, fmt.Sprintf("sess_init extension length := %d", uint32(v)))
			}
		case "xfer_segment": // extension length (u32) at offset 10, data length (u64) at offset 14
			for _, v := range bounds {
				m := append([]byte{}, base...)
				binary.BigEndian.PutUint32(m[10:], uint32(v))
				try(m, fmt.Sprintf("xfer_segment extension length := %d", uint32(v)))
				m = append([]byte{}, base...)
				binary.BigEndian.PutUint64(m[14:], v)
				try(m, fmt.Sprintf("xfer_segment data length := %d", v))
			}
		}
	}); err != nil {
		t.Fatal(err)
	}
	for b := 0; b < 256; b++ {
		try([]byte{byte(b)}, fmt.Sprintf("single byte %d", b))
		try(append([]byte{byte(b)}, bytes.Repeat([]byte{0xff}, 40)...), fmt.Sprintf("type byte %d followed by 0xff", b))
	}
	vhStat("inputs", n)
	vhDone()
}

func vxMin(a, b int) int {
	if a < b {
		return a
	}
	return b
}
