"""C01 Bundle wire codec is lossless, deterministic and idempotent."""
from props.wirecommon import *


def run(tier):
    chk = Check("C01", tier, "model_checking")
    chk.assumptions = ["abstract bundles come from Valid.tla's families (flag combinations, block subsets incl. all eight registered types and an "
                       "unknown one, CRC choices, integer widths at every CBOR boundary, payload lengths around 23/24 and 255/256, endpoint forms); "
                       "payloads of 65535..1 MiB+1 bytes are run-length cases built by the harness",
                       "map-valued blocks (PRoPHET, DTLSR) with 0..3 entries and CRC none/16/32 on the block; the serialiser picks the entry "
                       "order anew each time, so these round trips are repeated 24 times each",
                       "the harness maps an abstract bundle to API calls (trusted); the specification's own encoding of the same abstract bundle "
                       "(independent encoder incl. both CRCs) is parsed as an input not produced by the serialiser",
                       "byte equality between the specification's encoding and the real one is diagnostic only (reported as format_drift)",
                       "'all byte strings the parser accepts' is covered only for the specification's encodings and the rule-breaking mutants "
                       "of C02 that happen to be accepted; no coverage-guided search (DESIGN.md section 7)"]
    chk.cov["rule"] = ("each abstract bundle enumerated by TLC is built through the public API, serialised, parsed, compared field by field "
                       "(map-valued blocks as maps), re-serialised (byte-identical), serialised twice (deterministic); the specification's "
                       "encoding is parsed and must give the same value, and every accepted input must re-serialise to an accepted encoding "
                       "with the same ID, blocks and payload-last. distinct = distinct abstract bundles.")
    fams = ["flags", "blocks", "crc", "widths", "payload", "eids", "maps", "wide", "mut1"] + (["mut2"] if tier == "thorough" else [])
    cases = generate(chk, fams)
    inp = write_input("c01.ndjson", cases)
    st = run_harness(chk, "round trip", "pkg/bpv7", FILES, "TestVerifC01", env={"VERIF_IN": inp, "VERIF_PAR": 16}, timeout=1500, crash_key="codec/crash")
    if st.get("built", 0) < 500:
        raise InfraError("vacuous: only %s bundles built" % st.get("built"))
    chk.cov["traces_validated_against_impl"] = st["cases"]
    chk.cov["evaluations"] = st["cases"]
    chk.cov["distinct_nontrivial"] = len({json.dumps(c["bytes"]) for c in cases})
    chk.cov["format_drift"] = st.get("format_drift", 0)
    chk.cov["bytes_equal_spec"] = st.get("bytes_equal_spec", 0)
    return chk.finish()
