"""C09 Fragmentation respects the size limit and is exactly invertible."""
from props.fragcommon import *


def run(tier):
    chk = Check("C09", tier, "model_checking")
    chk.assumptions = ["input space is driven from the Go side (real serialised sizes are needed): block mixes x CRC types x endpoint forms x "
                       "payload lengths x every mtu from below the minimal overhead to above the bundle size (all for small payloads, sampled + "
                       "width boundaries for large ones)",
                       "a must-not-fragment bundle that already fits is left unconstrained (error or itself): the property's two clauses overlap there"]
    chk.cov["rule"] = ("every call of the real Bundle.Fragment(mtu) is recorded (sizes, offsets, totals, header/extension-block comparison, "
                       "validity, reassembly in three orders byte-compared with the original) and each record is judged by Frag!FragRecProblems "
                       "in TLC; Frag.tla itself is model-checked (sweep algorithm = set definition). distinct = distinct records.")
    n, k = (5, 3) if tier == "quick" else (6, 4)
    r = need_ok(run_tlc("Frag", frag_cfg(n, k, "none"), name="fragmc", deadlock=False), "Frag exhaustive")
    chk.add_tlc("exhaustive N=%d K=%d" % (n, k), r)
    recs = record_run(chk, tier)
    cnt, nbad = judge(chk, recs, lambda r: r["t"] == "frag", "fragment")
    fr = [r for r in recs if r["t"] == "frag"]
    if not any(len(r["frags"]) >= 2 for r in fr) or not any(r["err"] for r in fr) or not any(r["same"] for r in fr):
        raise InfraError("vacuous: recorder did not reach all outcome classes")
    chk.cov["traces_validated_against_impl"] = cnt
    chk.cov["evaluations"] = cnt
    chk.cov["distinct_nontrivial"] = len({json.dumps(r, sort_keys=True) for r in fr if len(r["frags"]) >= 2})
    chk.cov["outcomes"] = {"error": sum(1 for r in fr if r["err"]), "itself": sum(1 for r in fr if r["same"]),
                           "fragmented": sum(1 for r in fr if len(r["frags"]) >= 2), "second_level": sum(1 for r in fr if r["isfrag"])}
    chk.cov["samples"].append({"record": next((r for r in fr if len(r["frags"]) == 3), None)})
    return chk.finish()
