package common

// Shared helper for all in-package verification harnesses (copied into the target package through
// `go test -overlay`; the package clause is rewritten). Standard library only.

import (
	"bufio"
	"encoding/json"
	"fmt"
	"os"
	"runtime"
	"strconv"
	"strings"
	"sync"
	"syscall"
	"time"
)

type vhRec map[string]interface{}

var (
	vhMu   sync.Mutex
	vhFile *os.File
	vhBuf  *bufio.Writer
)

func vhOpen() {
	vhMu.Lock()
	defer vhMu.Unlock()
	if vhFile != nil {
		return
	}
	p := os.Getenv("VERIF_OUT")
	if p == "" {
		p = os.DevNull
	}
	f, err := os.OpenFile(p, os.O_CREATE|os.O_WRONLY|os.O_APPEND, 0o644)
	if err != nil {
		panic(err)
	}
	vhFile = f
	vhBuf = bufio.NewWriterSize(f, 1<<20)
}

func vhEmit(r vhRec) {
	vhOpen()
	b, err := json.Marshal(r)
	if err != nil {
		b, _ = json.Marshal(vhRec{"k": "note", "v": fmt.Sprintf("marshal error: %v", err)})
	}
	vhMu.Lock()
	vhBuf.Write(b)
	vhBuf.WriteByte('\n')
	vhMu.Unlock()
}

func vhFlush() {
	vhMu.Lock()
	if vhBuf != nil {
		vhBuf.Flush()
	}
	vhMu.Unlock()
}

func vhStat(name string, n int) { vhEmit(vhRec{"k": "stat", "name": name, "n": n}) }
func vhSample(v interface{})    { vhEmit(vhRec{"k": "sample", "v": v}) }
func vhNote(v interface{})      { vhEmit(vhRec{"k": "note", "v": v}) }

// vhViol reports a contradiction between the real code and the property.
// key is a stable classification (used by known_findings.txt); replay is self-contained.
func vhViol(key, desc string, replay interface{}) {
	vhEmit(vhRec{"k": "viol", "key": key, "desc": desc, "replay": replay})
}

func vhDone() {
	vhEmit(vhRec{"k": "done"})
	vhFlush()
}

func vhSeed() int64 {
	n, err := strconv.ParseInt(os.Getenv("VERIF_SEED"), 10, 64)
	if err != nil {
		return 1
	}
	return n
}

func vhEnvInt(name string, def int) int {
	n, err := strconv.Atoi(os.Getenv(name))
	if err != nil {
		return def
	}
	return n
}

// vhSkipSet: case indexes to skip (set by the orchestrator after a crash was attributed to them).
func vhSkipSet() map[int]bool {
	m := map[int]bool{}
	for _, f := range strings.Split(os.Getenv("VERIF_SKIP"), ",") {
		if n, err := strconv.Atoi(f); err == nil {
			m[n] = true
		}
	}
	return m
}

// vhBegin / vhEnd bracket one case so that a crash of the whole process can be attributed.
func vhBegin(idx, only int, item []byte) {
	vhEmit(vhRec{"k": "begin", "idx": idx})
	if only >= 0 {
		vhEmit(vhRec{"k": "case", "idx": idx, "v": json.RawMessage(item)})
	}
	vhFlush()
}

func vhEnd(idx int) { vhEmit(vhRec{"k": "end", "idx": idx}) }

func vhScratch() string {
	d := os.Getenv("VERIF_SCRATCH")
	if d == "" {
		d = os.TempDir()
	}
	return d
}

// vhLines streams the NDJSON file at path; each line is handed to fn.
func vhLines(path string, fn func(line []byte)) error {
	f, err := os.Open(path)
	if err != nil {
		return err
	}
	defer f.Close()
	sc := bufio.NewScanner(f)
	sc.Buffer(make([]byte, 1<<20), 1<<28)
	for sc.Scan() {
		b := sc.Bytes()
		if len(b) == 0 {
			continue
		}
		c := make([]byte, len(b))
		copy(c, b)
		fn(c)
	}
	return sc.Err()
}

// vhParallel runs fn over items on n workers.
func vhParallel(n int, items [][]byte, fn func(idx int, item []byte)) {
	var wg sync.WaitGroup
	ch := make(chan int, 1024)
	for w := 0; w < n; w++ {
		wg.Add(1)
		go func() {
			defer wg.Done()
			for i := range ch {
				fn(i, items[i])
			}
		}()
	}
	for i := range items {
		ch <- i
	}
	close(ch)
	wg.Wait()
}

// ---- robustness guard (C04) ------------------------------------------------------------------------------

// vhGuard runs fn (a decoder call on hostile input) and classifies what happens: "" (returned), "panic: ...",
// "hang", "balloon: ..." (allocated far more than the input can justify). Must be used from one goroutine at a time.
// vhGuardSlack: allocation every call of the decoder under test may need regardless of its input.
var vhGuardSlack = 4 << 20

var (
	vhHangs    int
	vhCaseN    int
	vhOnlyCase = -2
	vhSkipCase map[int]bool
)

// vhGuard brackets every input with begin/end records, so that a crash of the whole process (out of memory, fatal
// runtime errors) can be attributed to the input by re-running it alone (VERIF_ONLY) and skipped afterwards (VERIF_SKIP).
func vhGuard(inputLen int, fn func()) string {
	if vhOnlyCase == -2 {
		vhOnlyCase = vhEnvInt("VERIF_ONLY", -1)
		vhSkipCase = vhSkipSet()
		// a decoder that asks for more than 6 GiB of address space dies at once instead of dragging the machine down
		var lim syscall.Rlimit
		if syscall.Getrlimit(syscall.RLIMIT_AS, &lim) == nil {
			lim.Cur = 6 << 30
			_ = syscall.Setrlimit(syscall.RLIMIT_AS, &lim)
		}
	}
	idx := vhCaseN
	vhCaseN++
	if (vhOnlyCase >= 0 && idx != vhOnlyCase) || vhSkipCase[idx] {
		return ""
	}
	if vhHangs >= 6 {
		// every hang costs five seconds and leaves a spinning goroutine behind: six establish the defect, the rest of the inputs
		// of this process is not examined
		if vhHangs == 6 {
			vhHangs++
			vhEmit(vhRec{"k": "note", "v": "six decoder calls did not return: the remaining inputs of this harness run were not examined"})
		}
		return ""
	}
	vhEmit(vhRec{"k": "begin", "idx": idx})
	vhFlush()
	defer vhEmit(vhRec{"k": "end", "idx": idx})
	var before, after runtime.MemStats
	runtime.ReadMemStats(&before)
	done := make(chan string, 1)
	go func() {
		defer func() {
			if p := recover(); p != nil {
				done <- fmt.Sprintf("panic: %v", p)
				return
			}
			done <- ""
		}()
		fn()
	}()
	select {
	case r := <-done:
		if r != "" {
			return r
		}
	case <-time.After(5 * time.Second):
		vhHangs++
		return "hang"
	}
	runtime.ReadMemStats(&after)
	if d := after.TotalAlloc - before.TotalAlloc; d > uint64(vhGuardSlack+256*inputLen) {
		return fmt.Sprintf("balloon: %d bytes allocated for %d bytes of input", d, inputLen)
	}
	return ""
}

func vhClass(p string) string {
	switch {
	case strings.HasPrefix(p, "panic"):
		return "panic"
	case strings.HasPrefix(p, "hang"):
		return "hang"
	case strings.HasPrefix(p, "crash"):
		return "crash"
	case strings.HasPrefix(p, "balloon"):
		return "balloon"
	}
	return "error"
}

// vhMutant: one line of Robust.tla's output.
type vhMutantSet struct {
	Kind    string `json:"kind"`
	Base    []int  `json:"base"`
	Mutants []struct {
		At   int   `json:"at"`
		OldW int   `json:"oldw"`
		Head []int `json:"head"`
	} `json:"mutants"`
}

func vhBytes(a []int) []byte {
	o := make([]byte, len(a))
	for i, x := range a {
		o[i] = byte(x)
	}
	return o
}

// inputs: the base, every truncation of it, and every length/count mutant (each also cut right behind the changed head
// and a few bytes later, so that the declared length is never backed by data).
func (m vhMutantSet) inputs() (out [][]byte, notes []string) {
	base := vhBytes(m.Base)
	out = append(out, base)
	notes = append(notes, "base")
	for i := 0; i < len(base); i++ {
		out = append(out, base[:i])
		notes = append(notes, fmt.Sprintf("truncated at %d", i))
	}
	for _, mu := range m.Mutants {
		h := vhBytes(mu.Head)
		full := append(append(append([]byte{}, base[:mu.At-1]...), h...), base[mu.At+mu.OldW:]...)
		out = append(out, full)
		notes = append(notes, fmt.Sprintf("head at %d := %x", mu.At, h))
		cut := mu.At - 1 + len(h)
		for _, extra := range []int{0, 3} {
			if cut+extra < len(full) {
				out = append(out, full[:cut+extra])
				notes = append(notes, fmt.Sprintf("head at %d := %x, cut %d bytes behind it", mu.At, h, extra))
			}
		}
	}
	return
}
