#!/usr/bin/env python3
"""Regenerates /verif/MANIFEST.json from the table below (single source of truth)."""
import json, os, sys
ROOT = os.path.dirname(os.path.dirname(os.path.abspath(__file__)))

CHECKS = {
    "C16": dict(
        category="model_checking",
        text="ClaManager.tla (one action per public call / handler case of cla.Manager) is checked exhaustively by TLC for "
             "1-2 adapters x 1-2 instances, budgets 0..3, permanent or not; one behaviour per edge of the reduced state graph "
             "plus random deep behaviours are replayed on the real Manager with scripted adapters, comparing active set and "
             "Start/Close counts after every action. Right level: the property quantifies over histories of a small reactive "
             "state machine, which bounded model checking plus replay covers completely up to the bound.",
        design_ref="DESIGN.md section 6 C16",
        note="Trusted: TLC, the scripted mock adapters, the ticker hook (verif tag) delivering one retry tick per Tick action. "
             "Bounded: history length 6 (quick) / 8 (thorough) exhaustively, 14-24 random.",
        technique="TLA+ spec + TLC exhaustive check + replay of TLC behaviours on the real cla.Manager",
    ),
    "C09": dict(
        category="model_checking",
        text="Every call of the real Bundle.Fragment(mtu) over a generated space (block mixes, CRC types, endpoint forms, payload 0..40 x "
             "every mtu from below the minimal overhead to above the bundle size, larger payloads at CBOR width boundaries, second-level "
             "fragmentation) is recorded and judged by the TLA+ operator Frag!FragRecProblems evaluated by TLC (size limit, partition of the "
             "payload, totals, header fields, extension blocks, validity, byte-identical reassembly in three orders). Frag.tla itself is "
             "model-checked. Pure-function property: TLA+ as executable reference, records from the real code as the trace.",
        design_ref="DESIGN.md section 6 C09",
        note="Trusted: TLC, the recorder harness (it computes sizes and byte comparisons; TLC judges structure). The must-not-fragment-but-fits "
             "case is left unconstrained. Payloads above 70000 bytes and multi-entry map blocks are not generated.",
        technique="TLA+ reference operators evaluated by TLC over records of real Fragment() calls (trace validation of a pure function)",
    ),
    "C10": dict(
        category="model_checking",
        text="Frag.tla models arrival of arbitrary fragments (intervals) of one bundle; TLC checks the sweep algorithm against the set-based "
             "definition of coverage for all sequences of <=K intervals over N cells, and prints all of them; each is replayed as real "
             "fragment bundles through IsBundleReassemblable/ReassembleFragments after every arrival (panic = violation). Subsets, "
             "duplicates and shuffles of real Fragment() output from up to three limits plus second-level fragments are reassembled by the "
             "real code and judged by Frag!ReasmRecProblems in TLC.",
        design_ref="DESIGN.md section 6 C10",
        note="Trusted: TLC, harness construction of synthetic fragments. Bounds: N<=5,K<=3 / N=3,K=4 quick; N<=6,K<=4 thorough. The store's "
             "completeness test is covered under C08's harness.",
        technique="TLA+ spec + TLC enumeration of interval sequences replayed on the real reassembly code; TLC-judged records of real fragments",
    ),
    "C01": dict(
        category="model_checking",
        text="Valid.tla enumerates families of abstract bundles (all admissible flag combinations, all subsets of the eight registered block "
             "types plus an unknown one, CRC choices per block, every integer field at every CBOR width boundary, payload lengths around "
             "23/24 and 255/256, endpoint forms) and Wire.tla encodes each independently (CBOR heads, CRC-16/X-25, CRC-32C in TLA+). The "
             "harness builds each through the public API, checks parse(serialise(b)) = b field by field, byte-stable re-serialisation, "
             "determinism, and that the specification's own encoding parses to the same value and re-serialises acceptably. Weaker than a "
             "fuzzer on 'all accepted byte strings' (stated in DESIGN.md section 7).",
        design_ref="DESIGN.md section 6 C01, section 7",
        note="Trusted: TLC, the harness mapping from abstract bundle to API calls. Not covered: coverage-guided discovery of accepted inputs, payloads >= 2^32.",
        technique="TLA+ wire-format specification evaluated by TLC as generator and independent encoder; round-trip replay on the real codec",
    ),
    "C02": dict(
        category="model_checking",
        text="Valid.tla states each structural rule as an operator over the projection of a parsed bundle and generates rule-breaking "
             "mutants (20 mutations, singly and in pairs, thorough: triples) encoded with correct CRCs by Wire.tla; the real parser's verdict "
             "and projection are recorded and TLC judges accepted => IsValidBundle. Bundles returned by Builder programs, BuildFromMap maps, "
             "Fragment and ReassembleFragments are recorded and judged valid and re-parsable.",
        design_ref="DESIGN.md section 6 C02",
        note="Trusted: TLC, projection code of the harness. Node-generated bundles are validated in the Core replays. Lifetime boundary avoided on purpose.",
        technique="TLA+ rule operators + TLC-generated rule-violating encodings; TLC judgement of recorded parser verdicts (trace validation of a pure function)",
    ),
    "C03": dict(
        category="model_checking",
        text="Wire.tla defines both CRCs from their polynomials and an independent CBOR delimiter; TLC recomputes every CRC of every recorded real "
             "serialisation; the harness applies every single-bit flip and seeded bursts (<= CRC width, inside one block) and every mutant the "
             "real parser accepts is judged by TLC (accepted with a wrong declared CRC = violation).",
        design_ref="DESIGN.md section 6 C03",
        note="Trusted: TLC, Bitwise module, block boundaries for burst generation from the real serialiser. Exhaustive over bit positions of the generated bundles.",
        technique="TLA+ CRC and delimiter definitions evaluated by TLC over recorded serialisations and accepted corruptions",
    ),
    "C11": dict(
        category="model_checking",
        text="Tcpcl.tla models sender goroutine, wire, peer handler, acknowledgements and Send's main loop for concurrent transfers; TLC checks "
             "segment size, flags, success=>delivered, exactly-once and termination for all L<=6(8), m<=8(10), four peer faults. The segment "
             "function is replayed on the real NextSegment for all L<=60(200) x 1<=m<=L+2; executions of two real TransferManagers through a "
             "recording fault-injecting relay are validated event by event by TcpclTrace.tla (every event must be an enabled action).",
        design_ref="DESIGN.md section 6 C11",
        note="Trusted: TLC, relay harness (orders refusals behind outstanding acks). TCP/WebSocket framing by the repository's TestImplNetwork only.",
        technique="TLA+ protocol spec model-checked by TLC; replay of its segment function; trace validation of real TransferManager executions",
    ),
    "C12": dict(
        category="model_checking",
        text="Mtcp.tla (framed stream with keep-alives and cuts) and Bbc.tla (receiver table over arbitrary fragment sequences of two trains) are "
             "model-checked; every Mtcp writer program and every fragment sequence of length K is replayed on the real MTCPServer (loopback) / "
             "BBC Connector receive path comparing hand-ups and failure signals; real fragment trains and every single drop/dup/swap are "
             "recorded and judged by TLC; client sends on a failing connection likewise.",
        design_ref="DESIGN.md section 6 C12",
        note="Two BBC cases are protocol-inherent known findings (lost last fragment, duplicated single-fragment transmission). MTCP client failure via in-memory connection.",
        technique="TLA+ specs + TLC enumeration replayed on real MTCP server / BBC receiver; TLC-judged records of real trains under single faults",
    ),
    "C08": dict(
        category="model_checking",
        text="Store.tla is the reference durable map (push whole/fragment, concurrent fragment pushes, update, delete, expiry sweep, reopen, and "
             "kills at the instrumented points of Push and Delete with 'took effect or not' semantics); TLC checks locality of crashes and "
             "reopen identity and emits one behaviour per edge of the reduced graph plus random deep ones; each is replayed on a real "
             "storage.Store (crash steps in a child process killed at the hook, then reopened), comparing lookups, pending query, fragment "
             "sets, completeness, byte-identical part files and reassembled loads after every operation.",
        design_ref="DESIGN.md section 6 C08",
        note="Trusted: TLC, harness. Kill = process exit, not power loss. Concurrent pushes forced through the verif yield point (gate times out when the store serialises pushes).",
        technique="TLA+ spec + TLC exhaustive check + replay of TLC behaviours (incl. crash points and forced interleaving) on the real store",
    ),
    "C05": dict(
        category="model_checking",
        text='Core.tla (pipeline and routing algorithms as operators, one action per event: submit, receive, peer up/down, send outcome, retry tick, cleaning tick, restart) is model-checked per algorithm; one behaviour per edge of the reduced state graph plus random deep ones are replayed on a real routing.Core, comparing stored bundles, pending flags, transmissions, deliveries and reports after every event; families: plain, same-millisecond, clock-less.',
        design_ref='DESIGN.md section 6 C05',
        note='Trusted: TLC, the mock convergence layers / mock agent and the barrier protocol of the driver (DESIGN.md appendix A), in-package reads of the store and of the spray counters. Bounds: 2-4 bundles, 2-4 peers, history length 4-6 exhaustively per algorithm, 10-20 random.',
        technique="TLA+ spec of the processing pipeline + TLC exhaustive check + replay of TLC behaviours on a real routing.Core with mock CLAs",
    ),
    "C06": dict(
        category="model_checking",
        text='Same replay; every bundle handed to a convergence layer is compared block by block with what the node accepted (hop count +1 on every attempt, previous node, bundle age in ms within the measured residence, removed/unchanged/added blocks); guard outcomes (hop limit, lifetime by time and by age) come from Core.tla.',
        design_ref='DESIGN.md section 6 C06',
        note='Trusted: TLC, the mock convergence layers / mock agent and the barrier protocol of the driver (DESIGN.md appendix A), in-package reads of the store and of the spray counters. Bounds: 2-4 bundles, 2-4 peers, history length 4-6 exhaustively per algorithm, 10-20 random.',
        technique="TLA+ spec of the processing pipeline + TLC exhaustive check + replay of TLC behaviours on a real routing.Core with mock CLAs",
    ),
    "C13": dict(
        category="model_checking",
        text='Same replay over bundles arriving with every previous node, 3-4 peers, all algorithms incl. DTLSR broadcasts; besides the per-step comparison with Core.tla the transmission log is judged directly (never to the previous node, never again after a success while stored, failed peer eligible again).',
        design_ref='DESIGN.md section 6 C13',
        note='Trusted: TLC, the mock convergence layers / mock agent and the barrier protocol of the driver (DESIGN.md appendix A), in-package reads of the store and of the spray counters. Bounds: 2-4 bundles, 2-4 peers, history length 4-6 exhaustively per algorithm, 10-20 random.',
        technique="TLA+ spec of the processing pipeline + TLC exhaustive check + replay of TLC behaviours on a real routing.Core with mock CLAs",
    ),
    "C14": dict(
        category="model_checking",
        text='Core.tla assigns the sequence number at Submit before the store key exists (and skips numbers still in the store); behaviours over bundles sharing source and creation millisecond / zero creation time with peers, failures, retries and restarts are replayed; stored and transmitted sequence numbers are compared with the assigned one after every event.',
        design_ref='DESIGN.md section 6 C14',
        note='Trusted: TLC, the mock convergence layers / mock agent and the barrier protocol of the driver (DESIGN.md appendix A), in-package reads of the store and of the spray counters. Bounds: 2-4 bundles, 2-4 peers, history length 4-6 exhaustively per algorithm, 10-20 random.',
        technique="TLA+ spec of the processing pipeline + TLC exhaustive check + replay of TLC behaviours on a real routing.Core with mock CLAs",
    ),
    "C15": dict(
        category="model_checking",
        text='Core.tla emits a report only for an event of that step that was requested; behaviours over request-flag combinations x outcomes are replayed; every report found in transmissions or the store is decoded and checked (admin record, no request flags, report-to, exact ID incl. fragment fields, time iff requested) and the set per event compared with the spec.',
        design_ref='DESIGN.md section 6 C15',
        note='Trusted: TLC, the mock convergence layers / mock agent and the barrier protocol of the driver (DESIGN.md appendix A), in-package reads of the store and of the spray counters. Bounds: 2-4 bundles, 2-4 peers, history length 4-6 exhaustively per algorithm, 10-20 random.',
        technique="TLA+ spec of the processing pipeline + TLC exhaustive check + replay of TLC behaviours on a real routing.Core with mock CLAs",
    ),
    "C18": dict(
        category="model_checking",
        text="Core.tla with spray / binary spray, budgets 1..4(8): TLC checks 0<=copies<=budget and conservation in every state; behaviours replayed; the algorithm's copy counter (read in-package) and the BinarySprayBlock of every transmitted copy are compared with the spec after every event.",
        design_ref='DESIGN.md section 6 C18',
        note='Trusted: TLC, the mock convergence layers / mock agent and the barrier protocol of the driver (DESIGN.md appendix A), in-package reads of the store and of the spray counters. Bounds: 2-4 bundles, 2-4 peers, history length 4-6 exhaustively per algorithm, 10-20 random.',
        technique="TLA+ spec of the processing pipeline + TLC exhaustive check + replay of TLC behaviours on a real routing.Core with mock CLAs",
    ),
    "C04": dict(
        category='exploration',
        text='Model-generated exploration, declared as such: Robust.tla walks the specification-level encodings (bundles with all block types, status reports, announcements, WebSocket-agent messages), substitutes boundary values at every CBOR length/count position, the harness adds truncations and the fixed-offset TCPCL fields, MTCP frame heads, xz streams (also every size field of the xz container of a BBC transmission at the boundary values with correct checksums, each in a process of its own: four known findings in the xz dependency are reported on every run), endpoint strings and REST bodies; every decoder call is guarded (no panic, returns within 5 s, allocation <= 4 MiB + 256 x input length; process crashes are attributed by re-running the in-flight input alone). Session negotiation: peer-declared segment MRU over the same boundary values on NextSegment and TransferManager.Send. A TLA+ model does not decide memory safety; arbitrary 64 KiB byte strings and coverage-guided mutation are not covered.',
        design_ref='DESIGN.md section 6 C04, section 7',
        note="Trusted: harness guard (runtime.MemStats.TotalAlloc, RLIMIT_AS 6 GiB). 48 MiB slack for the xz decoder's dictionary.",
        technique='TLA+ wire-format model as input generator (length/count positions found by a CBOR walker in TLA+), guarded execution of the real decoders',
    ),
    "C07": dict(
        category='model_checking',
        text='Agents.tla (REST clients with mailboxes, WebSocket clients, ping agent, plain agent behind one mux) is model-checked; one behaviour per edge of the reduced graph plus random deep ones are replayed on a real MuxAgent with a real RestAgent over HTTP and a real WebSocketAgent with connector clients, comparing mailboxes, receptions, pongs, fetch results and the accepted/refused verdict after every operation; deliver/fetch on one mailbox are forced to interleave in both orders through the verif yield points and judged by Agents!RaceProblems.',
        design_ref='DESIGN.md section 6 C07',
        note='Trusted: TLC, barrier protocol (4 rounds of a recipient-less message), hand-over replicated from AgentManager.Deliver. Non-forwarding and report-only-on-success are covered by C05/C15 at Core level.',
        technique='TLA+ spec + TLC + replay on real agents; forced interleavings via yield-point hooks',
    ),
    "C17": dict(
        category='model_checking',
        text='WireAux.tla / Uri.tla enumerate the value space of every auxiliary format at the boundaries (all 256 values of each code field, lengths 0..65535 as run-length terms) with the encoding the specification gives; each value is built with the real constructors, encoded, compared (oracle for RFC-fixed layouts, diagnostic otherwise), decoded from a continuing stream (consumed length), concatenations read back; invalid codes through the encoder must be rejected; URIs judged by the TLA+ grammar, accepted ones must print back identically.',
        design_ref='DESIGN.md section 6 C17',
        note="Trusted: TLC, constructors used by the harness. Not covered: arbitrary accepted byte strings (only the specification's encodings).",
        technique='TLA+ wire-format specification evaluated by TLC as generator and independent encoder; round-trip replay on the real codecs',
    ),
    "C19": dict(
        category='model_checking',
        text='Gate: Core.tla with Algo = prophet and the Vector action (peer advertises one of four levels for a destination), replayed on a real Core: which peers receive the data bundle. Numeric part: random event sequences (encounter, ageing, received vectors with constants and values from [0,1] incl. 0, 1, denormals) on a real Prophet; the exact float64 bit patterns before/after every step are judged by Prophet.tla (range, monotonicity). Concurrency clause judged deterministically by the snapshot rule (vector of a handed-over bundle must not change with the table).',
        design_ref='DESIGN.md section 6 C19',
        note='Trusted: TLC, limb encoding of float order. IEEE rounding only for sampled sequences.',
        technique='TLA+ spec + replay (gate); TLC-judged records with exact float order keys (numeric); snapshot test (aliasing)',
    ),
    "C20": dict(
        category='model_checking',
        text='Dtlsr.tla computes, by Bellman-Ford in TLA+, the admissible next hops for every destination of every link-state graph over this node + 2 senders + 1 leaf with each link absent/live/lost-recently/lost-long-ago (exhaustive), and the result of every arrival order of <=3 updates; the real DTLSR computes its table for each graph (own links via ReportPeerAppeared, foreign data as real DTLSRBlock bundles) and every entry is compared. Unicast rule and release: Core.tla/dtlsr behaviours with Learn and Recompute replayed.',
        design_ref='DESIGN.md section 6 C20',
        note='Trusted: TLC, loss times written in-package (hours apart). Graphs with up to 8 nodes are not enumerated.',
        technique='TLA+ reference computation enumerated by TLC, compared with the real routing table; Core.tla replay for forwarding',
    ),
}

NOT_YET = "machinery for this property is not built yet in this revision (planned in DESIGN.md section 6)"


def main():
    props = [json.loads(l) for l in open(os.path.join(ROOT, "properties.jsonl"))]
    checks = []
    na = []
    for p in props:
        pid = p["id"]
        c = CHECKS.get(pid)
        if not c:
            na.append({"property_id": pid, "reason": NA.get(pid, NOT_YET)})
            continue
        checks.append({
            "property_id": pid,
            "quick_cmd": "bin/check %s quick" % pid,
            "thorough_cmd": "bin/check %s thorough" % pid,
            "evidence_file": "/verif/evidence/%s.json" % pid,
            "replay_cmd_template": "bin/replay {path}",
            "engine": "tla-replay",
            "level_claimed": {"category": c["category"], "text": c["text"], "design_ref": c["design_ref"]},
            "level_note": c["note"],
            "technique": c["technique"],
        })
    m = {
        "version": 1,
        "setup_cmd": "bin/setup",
        "hooks": {
            "guard": "verif",
            "enable": "go test -tags verif -overlay <harness overlay> (harness sources under /verif/harness are compiled inside the repo's packages)",
            "baseline_off_cmd": "cd /repo && GOFLAGS=-mod=mod GOPROXY=off go test -vet=off -count=1 -timeout 25m ./...",
            "source_commits": HOOK_COMMITS,
            "add_only": True,
        },
        "engines": [{
            "name": "tla-replay", "path": "/verif/tools/vlib.py",
            "serves_properties": sorted(CHECKS),
            "kind_free_text": "TLA+ specifications under /verif/spec checked with TLC; TLC-generated behaviours replayed on the real code and "
                              "traces recorded from the real code validated by TLC, through in-package Go harnesses compiled with go test -overlay",
        }, {
            "name": "growth", "path": "/verif/bin/growth",
            "serves_properties": [],
            "kind_free_text": "specifications beyond the listed properties (bin/growth session|cron|reports|discovery [quick|thorough]): Session.tla + SessionCheck.tla "
                              "(TCPCLv4 session life cycle and keep-alive timing, bound to a real StageHandler), Cron.tla (bound to a real Cron), Discovery.tla (bound to a real discovery.Manager); "
                              "divergences are printed as DIVERGENCE growth=<name>, results under /verif/growth/",
        }],
        "checks": checks,
        "notes": "See DESIGN.md. Exit codes: 0 held, 1 VIOLATION (replay file under /verif/out), 2 infrastructure error (no verdict).",
        "not_applicable": na,
    }
    with open(os.path.join(ROOT, "MANIFEST.json"), "w") as fh:
        json.dump(m, fh, indent=1)
    print("MANIFEST.json: %d checks, %d not_applicable" % (len(checks), len(na)))


NA = {}
HOOK_COMMITS = ["ba2cc1f", "672bb94", "8f9e00d", "20b28f3"]

if __name__ == "__main__":
    main()
