package routing

// C14 under concurrency: several goroutines (the agent manager's, the Core handler sending a status report, a routing cron) submit
// bundles of one source and one creation time at the same moment. Every round is recorded - the sequence numbers assigned and
// whether each bundle is filed in the store under the ID it left SendBundle with - and judged by the DistinctIds rule of Core.tla.

import (
	"bytes"
	"encoding/json"
	"fmt"
	"io"
	"os"
	"path/filepath"
	"sync"
	"testing"
	"time"

	log "github.com/sirupsen/logrus"

	"github.com/dtn7/dtn7-go/pkg/bpv7"
)

func TestVerifC14Concurrent(t *testing.T) {
	log.SetOutput(io.Discard)
	f, err := os.Create(os.Getenv("VERIF_REC"))
	if err != nil {
		t.Fatal(err)
	}
	defer f.Close()
	dir := filepath.Join(vhScratch(), "c14-conc")
	_ = os.RemoveAll(dir)
	c, err := NewCore(dir, bpv7.MustNewEndpointID(vcNode), false, vcConf("epidemic", 3), nil)
	if err != nil {
		t.Fatal(err)
	}
	defer c.Close()
	for _, j := range vcCronJobs {
		c.cron.Unregister(j)
	}
	rounds := vhEnvInt("VERIF_ROUNDS", 60)
	const par = 6
	stop := make(chan struct{})
	var bg sync.WaitGroup
	for g := 0; g < 3; g++ { // other senders keep the counter's lock busy
		bg.Add(1)
		go func(g int) {
			defer bg.Done()
			for i := 0; ; i++ {
				select {
				case <-stop:
					return
				default:
				}
				b, _ := bpv7.Builder().Source(fmt.Sprintf("dtn://node/bg%d", g)).Destination("dtn://far/").CreationTimestampTime(time.Now().Add(time.Duration(i) * time.Hour)).Lifetime("1h").PayloadBlock([]byte("bg")).Build()
				c.idKeeper.update(&b)
			}
		}(g)
	}
	base := time.Now()
	n := 0
	for r := 0; r < rounds; r++ {
		zero := r%3 == 2 // every third round: a source without a clock
		bs := make([]bpv7.Bundle, par)
		for i := range bs {
			bl := bpv7.Builder().Source(fmt.Sprintf("dtn://node/conc%d", r)).Destination("dtn://far/x").Lifetime("1h").PayloadBlock([]byte(fmt.Sprintf("round %d bundle %d", r, i)))
			if zero {
				bl = bl.CreationTimestampEpoch().BundleAgeBlock(0)
			} else {
				bl = bl.CreationTimestampTime(base.Add(time.Duration(r) * time.Second))
			}
			b, err := bl.Build()
			if err != nil {
				t.Fatal(err)
			}
			bs[i] = b
		}
		start := make(chan struct{})
		var wg sync.WaitGroup
		for i := range bs {
			wg.Add(1)
			go func(i int) {
				defer wg.Done()
				<-start
				c.SendBundle(&bs[i])
			}(i)
		}
		close(start)
		wg.Wait()
		seqs := make([]int, par)
		filed := make([]bool, par)
		for i := range bs {
			seqs[i] = int(bs[i].PrimaryBlock.CreationTimestamp.SequenceNumber())
			if bi, err := c.store.QueryId(bs[i].ID()); err == nil && len(bi.Parts) > 0 {
				if sb, err := bi.Parts[0].Load(); err == nil {
					if pb, err := sb.PayloadBlock(); err == nil {
						want, _ := bs[i].PayloadBlock()
						filed[i] = bytes.Equal(pb.Value.(*bpv7.PayloadBlock).Data(), want.Value.(*bpv7.PayloadBlock).Data())
					}
				}
			}
		}
		out, _ := json.Marshal(vhRec{"t": "concurrent-submissions", "round": r, "zero_time": zero, "seqs": seqs, "filed": filed})
		f.Write(append(out, '\n'))
		n++
	}
	close(stop)
	bg.Wait()
	vhStat("rounds", n)
	vhDone()
}
