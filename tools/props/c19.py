"""C19 PRoPHET predictabilities stay probabilities and gate forwarding."""
import os
from props.corecommon import *


def run(tier):
    chk = Check("C19", tier, "model_checking")
    quick = tier == "quick"
    chk.assumptions = ["gate: own predictability is 0 or P_init (destination met since start or not), beta = 0 so that received vectors do not move the "
                       "own table; peers advertise 4 levels (absent, below, equal, above P_init) through real metadata bundles",
                       "numeric part: the float64 bit patterns of all predictabilities before/after every step of random event sequences on a real "
                       "Prophet instance are recorded and compared exactly (lexicographic order of 16-bit limbs) by Prophet.tla; constants and "
                       "received values are drawn from [0,1] incl. 0, 1, denormals and neighbours of 0.5 and 1",
                       "concurrency clause: judged deterministically through the snapshot rule (the vector of a metadata bundle handed to a convergence "
                       "layer must not change when the table changes afterwards); a serialisation racing with updates is exactly that aliasing",
                       "IEEE rounding is covered only for the sampled sequences"]
    chk.cov["rule"] = ("Core.tla with Algo = prophet (actions Vector, PeerUp/Down, Receive, RetryTick, SetFail): TLC enumerates all orderings of "
                       "peer/destination levels reachable in the bound and the behaviours are replayed (which peers get the data bundle); "
                       "Prophet.tla judges the recorded numeric steps.")
    P = ["p1", "p2", "p3"]
    fam = dict(peers=P, enabled=["Receive", "PeerUp", "PeerDown", "SetFail", "RetryTick", "Vector"],
               cat={"d1": attr("p3", "p2", prev="p3"), "d2": attr("p1", "far", prev="p1")})
    plans = [dict(name="gate", fam=fam, algo="prophet", budget=3, steps=4 if quick else 5, sim=(150, 14) if quick else (3000, 20), cap=700 if quick else None)]
    # a peer withdraws what it advertised (a later summary vector without that destination): the gate follows the latest vector
    wfam = dict(peers=P[:2], enabled=["Receive", "PeerUp", "RetryTick", "Vector"], cat={"d2": attr("p1", "far", prev="p1")},
                vecdests=["far"], veclevels=[0, 2])

    def withdrawn(h):
        seen, n = set(), 0
        for i, st in enumerate(h):
            if st["act"] == "Vector":
                if st["v"] == 0 and (st["p"], st["d"]) in seen and any(x["act"] in ("Receive", "RetryTick", "PeerUp") for x in h[i + 1:]):
                    n += 1
                if st["v"] > 0:
                    seen.add((st["p"], st["d"]))
        return n
    plans.append(dict(name="withdrawn", fam=wfam, algo="prophet", budget=3, steps=5 if quick else 6, allpaths=True, cap=250 if quick else 4000,
                      mc=False, prefer=lambda h: withdrawn(h) * (1 + sum(len(st["exp"]["sends"]) == 0 and st["act"] in ("Receive", "RetryTick", "PeerUp") for st in h))))
    total, st = run_families(chk, "C19", plans, tier)
    own_violations(chk, "C19")
    if st.get("act_Vector", 0) == 0 or st.get("expected_sends", 0) == 0:
        raise InfraError("vacuous gate replay: %s" % st)
    recf = os.path.join(scratch("rec"), "c19.ndjson")
    run_harness(chk, "numeric sequences", "pkg/routing", FILES + ["routing/c19_prophet.go"], "TestVerifC19Numeric",
                env={"VERIF_REC": recf, "VERIF_RUNS": 8 if quick else 60, "VERIF_STEPS": 500 if quick else 3000}, timeout=1500)
    recs = read_ndjson(recf)
    # peers appearing, ageing, incoming vectors at the same time on a large table, under the race detector
    rc, out, crecs = go_test("pkg/routing", FILES + ["routing/c19_prophet.go"], "TestVerifC19Concurrent", env={"VERIF_MS": 1500 if quick else 8000},
                             race=True, timeout=900, name="prophet concurrent")
    racy = "WARNING: DATA RACE" in out or "fatal error: concurrent map" in out
    if racy and "algorithm_prophet.go" in out:
        i = max(out.find("WARNING: DATA RACE"), out.find("fatal error: concurrent map"))
        chk.violation("prophet/concurrent-access", "the PRoPHET tables are read and written at the same time while peers appear, values age and vectors arrive "
                      "(the Go runtime ends the process on such an access): " + " | ".join(out[i:i + 900].splitlines()[:14]), {"output": out[i:i + 4000]})
    elif not any(r.get("k") == "done" for r in crecs) or (rc != 0 and not racy):
        raise InfraError("concurrent PRoPHET harness did not complete (rc=%s)\n%s" % (rc, out[-1500:]))
    else:
        chk.cov["impl_runs"].append({"harness": "prophet concurrent (race detector)", **{r["name"]: r["n"] for r in crecs if r.get("k") == "stat"}})
    n, bad, results = check_records("Prophet", "", recs, name="prophetcheck")
    for r in results:
        chk.add_tlc("Prophet.tla records", r)
    for idx, problems in bad:
        r = recs[idx]
        for p in problems:
            chk.violation("prophet/" + p, "record judged by Prophet.tla: " + json.dumps(r)[:500], r)
    if sum(1 for r in recs if r["ev"] == "vector") == 0:
        raise InfraError("no snapshot record")
    chk.cov["traces_validated_against_impl"] = total + n
    chk.cov["evaluations"] = total + n
    chk.cov["distinct_nontrivial"] = total + len({json.dumps(r["entries"], sort_keys=True) for r in recs if r["ev"] != "vector"})
    chk.cov["numeric_steps_judged"] = n
    return chk.finish()
