------------------------------ MODULE WireAux ------------------------------
(* The node's other wire formats (property C17): TCPCLv4 contact header and messages (RFC 9174        *)
(* layouts: big-endian fixed-width fields), discovery announcements, WebSocket-agent messages, BBC     *)
(* fragment headers, bundle IDs, status reports, creation timestamps, endpoint IDs.                    *)
(* Each family is a set of abstract values together with the encoding this specification gives them.   *)
(* Long strings are run-length terms [fill, n] (TLC cannot hold 64 KiB tuples comfortably): `tail`      *)
(* says how many further fill bytes follow the explicit prefix.                                        *)
EXTENDS Wire, Json

CONSTANT Fam

U8(n) == <<n>>
U16(n) == <<n \div 256, n % 256>>
W32(u) == Pad(u, 4)
W64(u) == Pad(u, 8)

Bnd64 == {<<>>, <<1>>, <<255>>, <<1, 0>>, <<255, 255>>, <<1, 0, 0, 0, 0>>, <<127, 255, 255, 255, 255, 255, 255, 255>>, <<255, 255, 255, 255, 255, 255, 255, 255>>}
Lens == {0, 1, 23, 24, 255, 256, 65535}
Fill(n) == [i \in 1..(IF n > 40 THEN 40 ELSE n) |-> 97]     \* explicit prefix of a string of n 'a's
RestN(n) == IF n > 40 THEN n - 40 ELSE 0                       \* bytes not written out

(* ---- TCPCLv4 ---- *)
Magic == <<100, 116, 110, 33>>    \* "dtn!"
Tcpcl ==
     {[k |-> "contact", flags |-> f, magic |-> m, ver |-> v, valid |-> m = Magic /\ v = 4,
       bytes |-> m \o <<v, f>>, tail |-> 0] : f \in {0, 1, 255}, m \in {Magic, <<100, 116, 110, 34>>}, v \in {4, 3, 5}}
  \cup {[k |-> "sess_init", keepalive |-> ka, segmru |-> a, xfermru |-> b, idlen |-> n, valid |-> TRUE,
         bytes |-> <<7>> \o U16(ka) \o W64(a) \o W64(b) \o U16(n) \o Fill(n), tail |-> RestN(n), after |-> <<0, 0, 0, 0>>]
        : ka \in {0, 1, 65535}, a \in {<<>>, <<1>>, <<255, 255, 255, 255, 255, 255, 255, 255>>}, b \in {<<>>, <<1, 0, 0, 0, 0>>}, n \in Lens}
  \cup {[k |-> "sess_term", flags |-> f, reason |-> r, valid |-> r <= 5, bytes |-> <<5, f, r>>, tail |-> 0] : f \in {0, 1, 255}, r \in 0..255}
  \cup {[k |-> "xfer_segment", flags |-> f, tid |-> t, dlen |-> n, valid |-> TRUE,
         bytes |-> <<1, f>> \o W64(t) \o <<0, 0, 0, 0>> \o W64(UOfInt(n)) \o Fill(n), tail |-> RestN(n)] : f \in 0..3, t \in Bnd64, n \in {0, 1, 255, 256, 65535}}
  \cup {[k |-> "xfer_ack", flags |-> f, tid |-> t, acklen |-> a, valid |-> TRUE, bytes |-> <<2, f>> \o W64(t) \o W64(a), tail |-> 0] : f \in 0..3, t \in Bnd64, a \in Bnd64}
  \cup {[k |-> "xfer_refuse", reason |-> r, tid |-> t, valid |-> r <= 6, bytes |-> <<3, r>> \o W64(t), tail |-> 0] : r \in 0..255, t \in {<<>>, <<255, 255, 255, 255, 255, 255, 255, 255>>}}
  \cup {[k |-> "keepalive", valid |-> TRUE, bytes |-> <<4>>, tail |-> 0]}
  \cup {[k |-> "msg_reject", reason |-> r, header |-> h, valid |-> r \in 1..3, bytes |-> <<6, r, h>>, tail |-> 0] : r \in 0..255, h \in {0, 1, 255}}

(* ---- endpoint IDs ---- *)
Txt(s) == s
EA == [scheme |-> 1, kind |-> "dtn", text |-> <<47, 47, 110, 49, 47>>, node |-> <<>>, svc |-> <<>>, n |-> <<>>]             \* dtn://n1/
EB == [scheme |-> 1, kind |-> "dtn", text |-> <<47, 47, 110, 49, 47, 97, 47, 98>>, node |-> <<>>, svc |-> <<>>, n |-> <<>>] \* dtn://n1/a/b
EN == [scheme |-> 1, kind |-> "none", text |-> <<>>, node |-> <<>>, svc |-> <<>>, n |-> <<>>]
EI(a, b) == [scheme |-> 2, kind |-> "ipn", text |-> <<>>, node |-> a, svc |-> b, n |-> <<>>]
Eids == {EA, EB, EN, EI(<<1>>, <<1>>), EI(<<23>>, <<42>>), EI(<<1, 0>>, <<255, 255, 255, 255>>), EI(<<255, 255, 255, 255, 255, 255, 255, 255>>, <<1>>)}

(* ---- discovery ---- *)
Discovery ==
  {[k |-> "announcements", items |-> s, valid |-> \A i \in 1..Len(s) : s[i].type \in {0, 1, 10, 20},
    bytes |-> Arr(Len(s)) \o Concat([i \in 1..Len(s) |-> Arr(3) \o UIntI(s[i].type) \o EncEid(s[i].eid) \o UInt(s[i].port)]), tail |-> 0]
   : s \in UNION {[1..n -> {[type |-> t, eid |-> e, port |-> p] : t \in {0, 1, 10, 20, 2, 255}, e \in {EA, EI(<<23>>, <<42>>)}, p \in {<<>>, <<31, 144>>, <<255, 255>>, <<1, 0, 0, 0, 0>>}}] : n \in 0..2}}

(* ---- WebSocket agent messages ---- *)
Wam ==
     {[k |-> kind, code |-> c, slen |-> n, valid |-> TRUE, bytes |-> Arr(2) \o UIntI(c) \o CHeadI(3, n) \o Fill(n), tail |-> RestN(n)]
        : n \in Lens, kc \in {<<"status", 0>>, <<"register", 1>>, <<"syscall_request", 3>>}, kind \in {"status", "register", "syscall_request"}, c \in {0, 1, 3}}
  \cup {[k |-> "syscall_response", code |-> 4, slen |-> n, rlen |-> m, valid |-> TRUE,
         bytes |-> Arr(2) \o UIntI(4) \o Arr(2) \o CHeadI(3, n) \o Fill(n), tail |-> RestN(n), after |-> CHeadI(2, m) \o Fill(IF m > 40 THEN 40 ELSE m), aftertail |-> RestN(m)]
        : n \in {0, 1, 24, 256}, m \in {0, 1, 23, 24, 255, 256, 65535}}
  \cup {[k |-> "unknown", code |-> c, valid |-> FALSE, bytes |-> Arr(2) \o UIntI(c) \o <<96>>, tail |-> 0] : c \in {5, 23, 24, 255}}
WamGood == {w \in Wam : w.k \in {"syscall_response", "unknown"} \/ (w.k = "status" /\ w.code = 0) \/ (w.k = "register" /\ w.code = 1) \/ (w.k = "syscall_request" /\ w.code = 3)}

(* ---- BBC fragment header: transmission id byte, then (seq & 0x1F) << 3 | start 0x04 | end 0x02 | fail 0x01 ---- *)
BbcFrag ==
  {[k |-> "bbc", tid |-> t, seq |-> q, start |-> s, end |-> e, fail |-> f, plen |-> n, valid |-> TRUE,
    bytes |-> <<t, q * 8 + (IF s THEN 4 ELSE 0) + (IF e THEN 2 ELSE 0) + (IF f THEN 1 ELSE 0)>> \o Fill(n), tail |-> RestN(n)]
   : t \in {0, 1, 127, 255}, q \in 0..31, s \in BOOLEAN, e \in BOOLEAN, f \in BOOLEAN, n \in {0, 1, 10}}

(* ---- bundle IDs, creation timestamps, status reports ---- *)
Ts == {<<>>, <<1>>, <<24>>, <<1, 0>>, <<1, 0, 0, 0, 0>>, <<255, 255, 255, 255, 255, 255, 255, 255>>}
BundleIds ==
  {[k |-> "bundle_id", src |-> e, ts |-> t, seq |-> q, frag |-> fr, foff |-> o, ftotal |-> tot, valid |-> TRUE,
    bytes |-> EncEid(e) \o EncTs(t, q) \o (IF fr THEN UInt(o) \o UInt(tot) ELSE <<>>), tail |-> 0]
   : e \in Eids, t \in Ts, q \in {<<>>, <<23>>, <<24>>}, fr \in BOOLEAN, o \in {<<>>, <<1, 0>>}, tot \in {<<5>>, <<1, 0, 0>>}}
\* status report = administrative record [1, [ [4 status items], reason, source eid, timestamp, (offset, total) ]]
Item(asserted, withTime, t) == IF asserted /\ withTime THEN Arr(2) \o <<245>> \o UInt(t) ELSE Arr(1) \o <<IF asserted THEN 245 ELSE 244>>
StatusReports ==
  {[k |-> "status_report", which |-> w, time |-> wt, t |-> t, reason |-> r, src |-> e, ts |-> ts, seq |-> <<7>>, frag |-> fr, foff |-> <<3>>, ftotal |-> <<1, 0>>,
    valid |-> TRUE,
    bytes |-> Arr(2) \o UIntI(1) \o Arr(IF fr THEN 6 ELSE 4) \o Arr(4) \o Concat([i \in 1..4 |-> Item(i - 1 = w, wt, t)]) \o UIntI(r) \o EncEid(e) \o EncTs(ts, <<7>>)
              \o (IF fr THEN UInt(<<3>>) \o UInt(<<1, 0>>) ELSE <<>>), tail |-> 0]
   : w \in 0..3, wt \in BOOLEAN, t \in {<<>>, <<1>>, <<1, 0, 0, 0, 0>>, <<255, 255, 255, 255, 255, 255, 255, 255>>}, r \in {0, 1, 9, 11, 255}, e \in {EA, EI(<<23>>, <<42>>), EN}, ts \in {<<>>, <<1, 0, 0>>}, fr \in BOOLEAN}

Cases == CASE Fam = "tcpcl" -> Tcpcl [] Fam = "discovery" -> Discovery [] Fam = "wam" -> WamGood [] Fam = "bbc" -> BbcFrag
           [] Fam = "bundle_id" -> BundleIds [] Fam = "status_report" -> StatusReports

VARIABLE c
Init == c \in Cases
Next == UNCHANGED c
Spec == Init /\ [][Next]_c
Emit == PrintT(<<"TRACE", ToJson(c)>>)
=============================================================================
