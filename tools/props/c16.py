"""C16 The CLA manager reports an adapter active exactly while it is started.

Spec: spec/ClaManager.tla.  Binding: replay of TLC-generated behaviours against the real cla.Manager
(harness/cla/c16_replay.go), one behaviour per edge of the reduced state graph plus random deep ones."""
import json
from vlib import *

FILES = ["common/vh.go", "cla/c16_replay.go"]


def mc_module(addrs, perm, kind, loop):
    def fn(d):
        return "(" + " @@ ".join('"%s" :> "%s"' % (k, v) for k, v in d.items()) + ")"
    return """---- MODULE MCClaManager ----
EXTENDS ClaManager
MCAddr == {%s}
MCPerm == {%s}
MCKind == %s
MCLoop == %s
====
""" % (", ".join('"%s"' % a for a in addrs), ", ".join('"%s"' % a for a in perm), fn(kind), fn(loop))


def cfg_text(ninst, budget, steps, mode, view=True, props=True):
    t = """SPECIFICATION Spec
CONSTANTS
 Addr <- MCAddr
 NInst = %d
 Budget = %d
 Perm <- MCPerm
 Kind <- MCKind
 Loop <- MCLoop
 MaxSteps = %d
 EmitMode = "%s"
INVARIANTS TypeOK ActiveIffRunning BudgetNonNegative CloseOnce SingleInstance Emit
""" % (ninst, budget, steps, mode)
    if props:
        t += "PROPERTIES TickRule\n"
    if view:
        t += "VIEW View\n"
    return t


def world(addrs, perm, kind, loop, ninst, budget):
    return {"addr": addrs, "ninst": ninst, "budget": budget, "perm": perm, "kind": kind, "loop": loop}


WORLDS = {
    # name: (addrs, perm, kind, loop, ninst)
    "one-perm":    (["a1"], ["a1"], {"a1": "S"}, {"a1": "none"}, 2),
    "one-nonperm": (["a1"], [], {"a1": "R"}, {"a1": "none"}, 2),
    "two-mixed":   (["a1", "a2"], ["a1"], {"a1": "S", "a2": "R"}, {"a1": "none", "a2": "none"}, 1),
    "two-loop":    (["a1", "a2"], ["a2"], {"a1": "S", "a2": "R"}, {"a1": "a2", "a2": "none"}, 1),
}


def run(tier):
    chk = Check("C16", tier, "model_checking")
    chk.assumptions = [
        "adapters are scripted mocks: the outcome of each Start is chosen by the specification's environment",
        "retry ticks are injected through the verif ticker hook (one tick = one firing of the 10 s retry ticker)",
        "actions are issued one after the other (the property quantifies over histories, not schedules)",
    ]
    chk.cov["rule"] = ("TLC enumerates ClaManager.tla; with VIEW hiding the history every edge of the reduced state graph "
                       "prints one behaviour (path to the source state + that transition); each behaviour is replayed on a "
                       "fresh real cla.Manager and the projection (active address set, per-adapter Start/Close counts, started "
                       "flag) is compared after every action. distinct_nontrivial = distinct behaviours replayed.")
    quick = tier == "quick"
    plans = []
    if quick:
        plans += [("one-perm", b, 6) for b in (0, 1, 2)]
        plans += [("one-nonperm", b, 6) for b in (0, 1, 3)]
        plans += [("two-mixed", 1, 4), ("two-loop", 1, 4)]
    else:
        plans += [("one-perm", b, 8) for b in (0, 1, 2, 3)]
        plans += [("one-nonperm", b, 8) for b in (0, 1, 2, 3)]
        plans += [("two-mixed", b, 5) for b in (0, 1, 2)] + [("two-loop", b, 5) for b in (0, 1, 2)]
    jobs = []
    for wname, budget, steps in plans:
        addrs, perm, kind, loop, ninst = WORLDS[wname]
        mc = {"MCClaManager.tla": mc_module(addrs, perm, kind, loop)}
        label = "%s/budget=%d/steps=%d" % (wname, budget, steps)
        base = dict(module="MCClaManager", extra_files=mc, deadlock=False, timeout=900)
        # 1. exhaustive check of the design (no history variable)
        jobs.append(("exhaustive " + label, dict(base, cfg_text=cfg_text(ninst, budget, steps + 2, "none"),
                                                name="mc-%s-%d" % (wname, budget), coverage=not quick)))
        # 2. behaviours: one per edge of the reduced graph
        jobs.append(("generator " + label, dict(base, cfg_text=cfg_text(ninst, budget, steps, "edge", props=False),
                                               name="gen-%s-%d" % (wname, budget))))
        # 3. random deep behaviours
        jobs.append(("simulate " + label, dict(base, cfg_text=cfg_text(ninst, budget, 14 if quick else 24, "final", view=False, props=False),
                                              name="sim-%s-%d" % (wname, budget), workers=1, simulate=150 if quick else 3000,
                                              depth=40, tseed=seed() * 7919 + budget)))
    res = tlc_parallel(jobs)
    lines = []
    total = 0
    for w, (wname, budget, steps) in enumerate(plans):
        addrs, perm, kind, loop, ninst = WORLDS[wname]
        label = "%s/budget=%d/steps=%d" % (wname, budget, steps)
        r = need_ok(res["exhaustive " + label], "exhaustive " + label)
        g = need_ok(res["generator " + label], "generator " + label)
        s = need_ok(res["simulate " + label], "simulate " + label)
        chk.add_tlc("exhaustive " + label, r)
        seen = set()
        uniq = []
        for h in g.traces + s.traces:
            k = json.dumps(h, sort_keys=True)
            if k not in seen:
                seen.add(k)
                uniq.append(h)
        if not uniq:
            raise InfraError("generator produced no behaviours for " + label)
        chk.add_tlc("generator " + label, g, {"random_deep": len(s.traces), "distinct_behaviours": len(uniq)})
        lines.append({"cfg": world(addrs, perm, kind, loop, ninst, budget), "w": w})
        lines += [{"w": w, "h": h} for h in uniq]
        total += len(uniq)
    inp = write_input("c16.ndjson", lines)
    st = run_harness(chk, "replay", "pkg/cla", FILES, "TestVerifC16Replay",
                     env={"VERIF_IN": inp, "VERIF_PAR": 16}, crash_key="manager/crash", timeout=1800)
    if st.get("histories", 0) != total:
        raise InfraError("replayer saw %s of %d behaviours" % (st.get("histories"), total))
    chk.cov["traces_validated_against_impl"] = total
    chk.cov["evaluations"] = total
    chk.cov["distinct_nontrivial"] = total
    chk.cov["exhaustive"] = True
    chk.cov["explanation"] = "exhaustive up to the stated history length per world; random beyond"
    return chk.finish()
