package utils

// C11: (1) replay of the segment function of Tcpcl.tla against OutgoingTransfer.NextSegment;
// (2) executions of two real TransferManagers joined by a recording, fault-injecting relay, written as traces
// for TcpclTrace.tla.

import (
	"bytes"
	"encoding/json"
	"fmt"
	"io"
	"os"
	"sync"
	"testing"
	"time"

	"github.com/dtn7/dtn7-go/pkg/bpv7"
	"github.com/dtn7/dtn7-go/pkg/cla/tcpclv4/internal/msgs"
)

type vtSeg struct {
	Len   int  `json:"len"`
	Start bool `json:"start"`
	End   bool `json:"end"`
}

type vtSegCase struct {
	L    int     `json:"l"`
	M    int     `json:"m"`
	Segs []vtSeg `json:"segs"`
}

// vtSegments drives NextSegment over a stream of l bytes; a second goroutine feeds the pipe like NewBundleOutgoingTransfer does.
func vtSegments(l, m int) (segs []vtSeg, data []byte, problem string) {
	t, w := NewOutgoingTransfer(7)
	src := make([]byte, l)
	for i := range src {
		src[i] = byte(i*13 + 5)
	}
	go func() {
		pw := w.(*io.PipeWriter)
		// written in uneven chunks so that segment boundaries and write boundaries differ
		for off := 0; off < len(src); {
			n := 3 + off%5
			if off+n > len(src) {
				n = len(src) - off
			}
			_, _ = pw.Write(src[off : off+n])
			off += n
		}
		_ = pw.Close()
	}()
	done := make(chan struct{})
	go func() {
		defer close(done)
		defer func() {
			if p := recover(); p != nil {
				problem = fmt.Sprintf("panic: %v", p)
			}
		}()
		for i := 0; i < l+5; i++ {
			dtm, err := t.NextSegment(uint64(m))
			if err == io.EOF {
				return
			}
			if err != nil {
				problem = "error: " + err.Error()
				return
			}
			segs = append(segs, vtSeg{Len: len(dtm.Data), Start: dtm.Flags&msgs.SegmentStart != 0, End: dtm.Flags&msgs.SegmentEnd != 0})
			data = append(data, dtm.Data...)
			if dtm.TransferId != 7 {
				problem = "wrong transfer id"
				return
			}
			if dtm.Flags&msgs.SegmentEnd != 0 {
				// a correct sender stops here; ask once more to see that nothing follows
				if _, err := t.NextSegment(uint64(m)); err != io.EOF {
					problem = "segment after END"
				}
				return
			}
		}
		problem = "too many segments"
	}()
	select {
	case <-done:
	case <-time.After(10 * time.Second):
		problem = "hang: NextSegment does not return"
	}
	if problem == "" && !bytes.Equal(data, src) {
		problem = "concatenation of the segments differs from the stream"
	}
	return
}

func TestVerifC11Segments(t *testing.T) {
	var items [][]byte
	if err := vhLines(os.Getenv("VERIF_IN"), func(b []byte) { items = append(items, b) }); err != nil {
		t.Fatal(err)
	}
	var mu sync.Mutex
	ok, divisor := 0, 0
	vhParallel(vhEnvInt("VERIF_PAR", 8), items, func(idx int, item []byte) {
		var c vtSegCase
		if err := json.Unmarshal(item, &c); err != nil {
			vhEmit(vhRec{"k": "infra", "v": err.Error()})
			return
		}
		segs, _, problem := vtSegments(c.L, c.M)
		if problem == "" && fmt.Sprint(segs) != fmt.Sprint(c.Segs) {
			problem = "segments differ from the specification"
		}
		if problem != "" {
			feat := ""
			if c.L%c.M == 0 {
				feat = "/m-divides-L"
			}
			vhViol("segments/"+vtClass(problem)+feat, fmt.Sprintf("L=%d m=%d: %s; expected %v, observed %v", c.L, c.M, problem, c.Segs, segs),
				vhRec{"l": c.L, "m": c.M, "expected": c.Segs, "observed": segs, "problem": problem})
			return
		}
		mu.Lock()
		ok++
		if c.L%c.M == 0 {
			divisor++
		}
		if idx%500 == 3 {
			vhSample(vhRec{"l": c.L, "m": c.M, "segments": segs})
		}
		mu.Unlock()
	})
	vhStat("cases", len(items))
	vhStat("cases_conforming", ok)
	vhStat("cases_m_divides_L", divisor)
	vhDone()
}

func vtClass(p string) string {
	switch {
	case len(p) > 5 && p[:5] == "panic":
		return "panic"
	case len(p) > 4 && p[:4] == "hang":
		return "hang"
	case p == "segments differ from the specification":
		return "wrong-segmentation"
	}
	return "error"
}

// ---- relay scenarios -----------------------------------------------------------------------------

type vtXfer struct {
	Payload int    `json:"payload"`
	Fault   string `json:"fault"`
	At      int    `json:"at"`
	// After = k > 0: the relay holds this transfer's segments behind its first one until transfer k (1-based, same
	// direction) has been handed to the peer completely, so that a later transfer finishes before an earlier one.
	After int `json:"after"`
}

type vtScenario struct {
	M  int      `json:"m"`
	AB []vtXfer `json:"ab"` // transfers from A to B (ids 0..)
	BA []vtXfer `json:"ba"` // transfers from B to A, concurrently
}

type vtEvent map[string]interface{}

type vtDir struct {
	mu       sync.Mutex
	ev       []vtEvent
	lens     []int
	segCount map[uint64]int
	ackCount map[uint64]int
	dead     map[uint64]bool // transfers whose further segments are discarded silently (after refuse / close)
	firstSeg []chan struct{}
	parked   []*msgs.DataTransmissionMessage // segments held back (see vtXfer.After)
	ended    map[uint64]bool                 // transfers whose END segment went to the peer
	fwd      int                             // segments handed to the peer
	acked    int                             // acknowledgements seen coming back from the peer (forwarded or dropped)
	ends     int                             // END segments handed to the peer
	handed   int                             // bundles / errors the peer handed up
}

func (d *vtDir) log(e vtEvent) { d.ev = append(d.ev, e) }

func vtBundle(payload int, tag byte) bpv7.Bundle {
	data := make([]byte, payload)
	for i := range data {
		data[i] = tag + byte(i*3)
	}
	b, err := bpv7.Builder().CRC(bpv7.CRC32).Source("dtn://src/").Destination("dtn://dst/").CreationTimestampNow().
		Lifetime("30m").PayloadBlock(data).Build()
	if err != nil {
		panic(err)
	}
	return b
}

func vtSerial(b bpv7.Bundle) []byte {
	var buf bytes.Buffer
	_ = b.MarshalCbor(&buf)
	return buf.Bytes()
}

// vtRun executes one scenario on two real TransferManagers and returns one trace per direction.
func vtRun(sc vtScenario) (traces []vhRec, problem string) {
	const capN = 4096
	aOut, aIn := make(chan msgs.Message, capN), make(chan msgs.Message, capN)
	bOut, bIn := make(chan msgs.Message, capN), make(chan msgs.Message, capN)
	tmA := NewTransferManager(aIn, aOut, uint64(sc.M))
	tmB := NewTransferManager(bIn, bOut, uint64(sc.M))
	defer func() { _ = tmA.Close(); _ = tmB.Close() }()

	mk := func(xs []vtXfer) *vtDir {
		d := &vtDir{segCount: map[uint64]int{}, ackCount: map[uint64]int{}, dead: map[uint64]bool{}, ended: map[uint64]bool{}}
		for range xs {
			d.firstSeg = append(d.firstSeg, make(chan struct{}))
		}
		return d
	}
	dirs := map[string]*vtDir{"ab": mk(sc.AB), "ba": mk(sc.BA)}
	xfers := map[string][]vtXfer{"ab": sc.AB, "ba": sc.BA}
	stop := make(chan struct{})
	var relayWG sync.WaitGroup

	// relay: from -> to. Segments of direction `name` travel from->to, their acks to->from.
	relay := func(name string, fromOut chan msgs.Message, toIn chan msgs.Message, ackDir *vtDir, ackName string, sender *TransferManager) {
		defer relayWG.Done()
		d := dirs[name]
		for {
			select {
			case <-stop:
				return
			case m := <-fromOut:
				switch msg := m.(type) {
				case *msgs.DataTransmissionMessage:
					// segments are processed in the order the relay decides to hand them on: held ones wait in d.parked
					queue := []*msgs.DataTransmissionMessage{msg}
					for len(queue) > 0 {
						msg := queue[0]
						queue = queue[1:]
						d.mu.Lock()
						id := msg.TransferId
						if int(id) >= len(xfers[name]) || d.dead[id] {
							d.mu.Unlock()
							continue
						}
						x := xfers[name][id]
						if x.After > 0 && d.segCount[id] > 0 && !d.ended[uint64(x.After-1)] && !d.dead[uint64(x.After-1)] {
							d.parked = append(d.parked, msg)
							d.mu.Unlock()
							continue
						}
						d.log(vtEvent{"e": "seg", "id": id + 1, "len": len(msg.Data), "start": msg.Flags&msgs.SegmentStart != 0, "end": msg.Flags&msgs.SegmentEnd != 0})
						d.log(vtEvent{"e": "peer"})
						n := d.segCount[id]
						d.segCount[id] = n + 1
						if n == 0 {
							close(d.firstSeg[id])
						}
						faulty := x.Fault != "none" && n >= x.At
						switch {
						case faulty && x.Fault == "refuse":
							d.dead[id] = true
							d.mu.Unlock()
							// the refusal must not overtake the acknowledgements of the segments the peer already got
							for w := 0; w < 3000; w++ {
								d.mu.Lock()
								settled := d.acked >= d.fwd
								d.mu.Unlock()
								if settled {
									break
								}
								time.Sleep(time.Millisecond)
							}
							d.mu.Lock()
							d.log(vtEvent{"e": "refuse", "id": id + 1})
							queue = append(queue, d.parked...) // transfers waiting for this one go on
							d.parked = nil
							d.mu.Unlock()
							// the refusal travels like an acknowledgement: into the sender's input; every reason code of RFC 9174 in turn
							// (whatever the reason, the peer did not get the transfer's end through this session)
							reason := msgs.TransferRefusalCode((id + uint64(n) + uint64(len(xfers[name]))) % 7)
							if name == "ab" {
								aIn <- msgs.NewTransferRefusalMessage(reason, id)
							} else {
								bIn <- msgs.NewTransferRefusalMessage(reason, id)
							}
						case faulty && x.Fault == "close":
							for i := range xfers[name] {
								d.dead[uint64(i)] = true
							}
							d.mu.Unlock()
							_ = sender.Close()
						default:
							d.fwd++
							if msg.Flags&msgs.SegmentEnd != 0 {
								d.ends++
								d.ended[id] = true
								queue = append(queue, d.parked...)
								d.parked = nil
							}
							d.mu.Unlock()
							toIn <- msg
						}
					}
				case *msgs.DataAcknowledgementMessage:
					// acknowledgement for a transfer of the *other* direction
					ackDir.mu.Lock()
					id := msg.TransferId
					ackDir.acked++
					if int(id) < len(xfers[ackName]) {
						x := xfers[ackName][id]
						k := ackDir.ackCount[id]
						ackDir.ackCount[id] = k + 1
						if x.Fault == "dropacks" && k >= x.At {
							ackDir.mu.Unlock()
							continue
						}
						ackDir.log(vtEvent{"e": "ack", "id": id + 1, "n": msg.AckLen})
					}
					ackDir.mu.Unlock()
					toIn <- msg
				default:
					toIn <- m
				}
			}
		}
	}
	relayWG.Add(2)
	go relay("ab", aOut, bIn, dirs["ba"], "ba", tmA)
	go relay("ba", bOut, aIn, dirs["ab"], "ab", tmB)

	// deliveries
	sent := map[string][][]byte{"ab": nil, "ba": nil}
	var sentMu sync.Mutex
	recvWG := sync.WaitGroup{}
	recv := func(name string, tm *TransferManager) {
		defer recvWG.Done()
		bundles, errs := tm.Exchange()
		for {
			select {
			case <-stop:
				return
			case b := <-bundles:
				ser := vtSerial(b)
				d := dirs[name]
				sentMu.Lock()
				id := -1
				for i, s := range sent[name] {
					if bytes.Equal(s, ser) {
						id = i
					}
				}
				sentMu.Unlock()
				d.mu.Lock()
				d.handed++
				if id < 0 {
					d.log(vtEvent{"e": "deliver", "id": 0, "same": false})
				} else {
					d.log(vtEvent{"e": "deliver", "id": id + 1, "same": true})
				}
				d.mu.Unlock()
			case err := <-errs:
				d := dirs[name]
				d.mu.Lock()
				d.handed++
				d.log(vtEvent{"e": "peer-error", "text": err.Error()})
				d.mu.Unlock()
			}
		}
	}
	recvWG.Add(2)
	go recv("ab", tmB) // bundles sent A->B come up at B
	go recv("ba", tmA)

	// senders: started one after the other (so that transfer ids are known), running concurrently
	var sendWG sync.WaitGroup
	start := func(name string, tm *TransferManager, xs []vtXfer, tag byte) {
		d := dirs[name]
		for i, x := range xs {
			b := vtBundle(x.Payload, tag+byte(i)*17)
			ser := vtSerial(b)
			sentMu.Lock()
			sent[name] = append(sent[name], ser)
			sentMu.Unlock()
			d.mu.Lock()
			d.lens = append(d.lens, len(ser))
			d.mu.Unlock()
			sendWG.Add(1)
			go func(i int, b bpv7.Bundle) {
				defer sendWG.Done()
				err := tm.Send(b)
				d.mu.Lock()
				d.log(vtEvent{"e": "ret", "id": i + 1, "ok": err == nil})
				d.mu.Unlock()
			}(i, b)
			select {
			case <-d.firstSeg[i]:
			case <-time.After(5 * time.Second):
				problem = "sender emitted no segment within 5 s"
				return
			}
		}
	}
	var startWG sync.WaitGroup
	startWG.Add(2)
	go func() { defer startWG.Done(); start("ab", tmA, sc.AB, 1) }()
	go func() { defer startWG.Done(); start("ba", tmB, sc.BA, 101) }()
	startWG.Wait()
	fin := make(chan struct{})
	go func() { sendWG.Wait(); close(fin) }()
	select {
	case <-fin:
	case <-time.After(25 * time.Second):
		problem = "hang: Send did not return within 25 s"
	}
	// wait until the peer handed up (bundle or error) every transfer whose END segment it was given
	for w := 0; w < 5000; w++ {
		settled := true
		for _, d := range dirs {
			d.mu.Lock()
			if d.handed < d.ends {
				settled = false
			}
			d.mu.Unlock()
		}
		if settled {
			break
		}
		time.Sleep(time.Millisecond)
	}
	close(stop)
	relayWG.Wait()
	recvWG.Wait()
	for _, name := range []string{"ab", "ba"} {
		d := dirs[name]
		xs := xfers[name]
		if len(xs) == 0 {
			continue
		}
		d.mu.Lock()
		faults, ats := []string{}, []int{}
		for _, x := range xs {
			faults = append(faults, x.Fault)
			ats = append(ats, x.At)
		}
		ev := append([]vtEvent{}, d.ev...)
		ev = append(ev, vtEvent{"e": "end"})
		traces = append(traces, vhRec{"cfg": vhRec{"m": sc.M, "len": d.lens, "fault": faults, "at": ats}, "ev": ev, "scenario": sc, "dir": name})
		d.mu.Unlock()
	}
	return
}

func TestVerifC11Relay(t *testing.T) {
	var items [][]byte
	if err := vhLines(os.Getenv("VERIF_IN"), func(b []byte) { items = append(items, b) }); err != nil {
		t.Fatal(err)
	}
	f, err := os.Create(os.Getenv("VERIF_REC"))
	if err != nil {
		t.Fatal(err)
	}
	defer f.Close()
	var mu sync.Mutex
	ntr := 0
	vhParallel(vhEnvInt("VERIF_PAR", 32), items, func(idx int, item []byte) {
		var sc vtScenario
		if err := json.Unmarshal(item, &sc); err != nil {
			vhEmit(vhRec{"k": "infra", "v": err.Error()})
			return
		}
		traces, problem := vtRun(sc)
		if problem != "" {
			vhViol("transfer/"+vtClass(problem), fmt.Sprintf("scenario %s: %s", item, problem), vhRec{"scenario": sc, "problem": problem})
		}
		mu.Lock()
		for _, tr := range traces {
			b, _ := json.Marshal(tr)
			f.Write(append(b, '\n'))
			ntr++
		}
		mu.Unlock()
	})
	vhStat("scenarios", len(items))
	vhStat("traces", ntr)
	vhDone()
}
