----------------------------- MODULE TcpclGen -----------------------------
(* Prints the expected segmentation for every stream length 1..LMax and every segment size 1..L+2. *)
EXTENDS Tcpcl, Json
CONSTANTS LMax
ASSUME \A L \in 1..LMax : \A m \in 1..(L + 2) :
          PrintT(<<"TRACE", ToJson([l |-> L, m |-> m, segs |-> SegsFrom(L, m, 0)])>>)
GenSpec == InitFor([m |-> 1, len |-> <<1>>, fault |-> <<"none">>, at |-> <<0>>]) /\ [][FALSE]_vars
=============================================================================
