package bpv7

// C09 / C10: (1) replay of Frag.tla behaviours (arbitrary interval multisets as synthetic real fragments),
// (2) recording of real Fragment()/ReassembleFragments() results for validation by Frag!FragRecProblems /
// Frag!ReasmRecProblems in TLC.

import (
	"bytes"
	"encoding/json"
	"fmt"
	"math/rand"
	"os"
	"sort"
	"sync"
	"testing"
	"time"
)

func vfSer(b Bundle) []byte {
	var buf bytes.Buffer
	if err := b.WriteBundle(&buf); err != nil {
		return nil
	}
	return buf.Bytes()
}

func vfSerBlock(cb CanonicalBlock) []byte {
	var buf bytes.Buffer
	if err := cb.MarshalCbor(&buf); err != nil {
		return nil
	}
	return buf.Bytes()
}

// vfExtBlocks: serialisations of the non-payload blocks; onlyRepl restricts to replicate-flagged ones.
func vfExtBlocks(b Bundle, onlyRepl bool) [][]byte {
	var out [][]byte
	for _, cb := range b.CanonicalBlocks {
		if cb.TypeCode() == ExtBlockTypePayloadBlock {
			continue
		}
		if onlyRepl && !cb.BlockControlFlags.Has(ReplicateBlock) {
			continue
		}
		// compared modulo the block number: Fragment() renumbers replicated blocks, and C09 speaks of the blocks
		// (type, flags, CRC type, content), not of their numbers
		cb.BlockNumber = 0
		cb.CRC = nil
		out = append(out, vfSerBlock(cb))
	}
	sort.Slice(out, func(i, j int) bool { return bytes.Compare(out[i], out[j]) < 0 })
	return out
}

func vfSameBlocks(a, b [][]byte) bool {
	if len(a) != len(b) {
		return false
	}
	for i := range a {
		if !bytes.Equal(a[i], b[i]) {
			return false
		}
	}
	return true
}

func vfPayload(b Bundle) []byte {
	pb, err := b.PayloadBlock()
	if err != nil {
		return nil
	}
	return pb.Value.(*PayloadBlock).Data()
}

func vfData(n int) []byte {
	d := make([]byte, n)
	for i := range d {
		d[i] = byte((i*37 + 11) % 251)
	}
	return d
}

type vfVariant struct {
	Ipn     bool `json:"ipn"`
	PCrc    int  `json:"pcrc"`
	CCrc    int  `json:"ccrc"`
	Mix     int  `json:"mix"`
	Mnf     bool `json:"mnf"`
	ZeroTs  bool `json:"zerots"`
	Payload int  `json:"plen"`
}

var vfCrcs = []CRCType{CRCNo, CRC16, CRC32}

// vfOrig builds an original bundle through the public constructors.
func vfOrig(v vfVariant) (Bundle, error) {
	var dst, src EndpointID
	if v.Ipn {
		dst, src = MustNewEndpointID("ipn:23.42"), MustNewEndpointID("ipn:1.1")
	} else {
		dst, src = MustNewEndpointID("dtn://dst/app"), MustNewEndpointID("dtn://src/")
	}
	var flags BundleControlFlags
	if v.Mnf {
		flags |= MustNotFragmented
	}
	ts := NewCreationTimestamp(DtnTimeNow(), 7)
	if v.ZeroTs {
		ts = NewCreationTimestamp(DtnTimeEpoch, 3)
	}
	pb := NewPrimaryBlock(flags, dst, src, ts, uint64(24*time.Hour/time.Millisecond))
	if pcrc := vfCrcs[v.PCrc]; pcrc == CRCNo {
		// a primary block without a CRC (as a foreign node may send it): the setter would silently choose CRC-32
		pb.CRCType, pb.CRC = CRCNo, nil
	} else {
		pb.SetCRCType(pcrc)
	}
	var cbs []CanonicalBlock
	add := func(no uint64, fl BlockControlFlags, val ExtensionBlock) {
		cb := NewCanonicalBlock(no, fl, val)
		cb.SetCRCType(vfCrcs[v.CCrc])
		cbs = append(cbs, cb)
	}
	switch v.Mix {
	case 1:
		add(2, ReplicateBlock, NewHopCountBlock(64))
	case 2:
		add(2, 0, NewBundleAgeBlock(1000))
		add(3, 0, NewPreviousNodeBlock(MustNewEndpointID("dtn://prev/")))
	case 3:
		add(2, ReplicateBlock, NewHopCountBlock(32))
		add(3, 0, NewBundleAgeBlock(5))
		add(4, ReplicateBlock|RemoveBlock, NewGenericExtensionBlock([]byte{1, 2, 3, 4, 5, 6, 7}, 222))
		add(5, 0, NewPreviousNodeBlock(MustNewEndpointID("ipn:9.9")))
	case 4: // block numbers as a foreign node may have chosen them: not consecutive
		add(5, ReplicateBlock, NewHopCountBlock(32))
		add(3, 0, NewBundleAgeBlock(77))
		add(17, ReplicateBlock, NewGenericExtensionBlock([]byte{9, 8, 7}, 223))
	case 5: // three blocks that are replicated into every fragment
		add(2, ReplicateBlock, NewHopCountBlock(32))
		add(3, ReplicateBlock, NewBundleAgeBlock(9))
		add(4, ReplicateBlock, NewPreviousNodeBlock(MustNewEndpointID("dtn://prev/")))
	case 6: // five of them, and one that stays in the first fragment
		add(2, ReplicateBlock, NewHopCountBlock(32))
		add(3, ReplicateBlock, NewBundleAgeBlock(9))
		add(4, ReplicateBlock, NewPreviousNodeBlock(MustNewEndpointID("ipn:9.9")))
		add(5, ReplicateBlock, NewGenericExtensionBlock([]byte{1}, 222))
		add(6, 0, NewGenericExtensionBlock([]byte{2, 2}, 223))
		add(7, ReplicateBlock, NewGenericExtensionBlock([]byte{3, 3, 3}, 224))
	}
	if v.ZeroTs && v.Mix != 2 && v.Mix != 3 && v.Mix != 4 && v.Mix != 5 && v.Mix != 6 {
		add(6, 0, NewBundleAgeBlock(0))
	}
	add(1, 0, NewPayloadBlock(vfData(v.Payload)))
	return NewBundle(pb, cbs)
}

// vfSynth builds a fragment [off, off+length) of orig by hand (not through Fragment()).
func vfSynth(orig Bundle, off, length int) Bundle {
	data := vfPayload(orig)
	p := orig.PrimaryBlock
	p.BundleControlFlags |= IsFragment
	p.FragmentOffset = uint64(off)
	p.TotalDataLength = uint64(len(data))
	p.CRC = nil
	if orig.PrimaryBlock.CRCType == CRCNo {
		p.CRCType = CRCNo
	} else {
		p.SetCRCType(orig.PrimaryBlock.CRCType)
	}
	var cbs []CanonicalBlock
	for _, cb := range orig.CanonicalBlocks {
		if cb.TypeCode() == ExtBlockTypePayloadBlock {
			ncb := NewCanonicalBlock(1, cb.BlockControlFlags, NewPayloadBlock(append([]byte{}, data[off:off+length]...)))
			ncb.SetCRCType(cb.CRCType)
			cbs = append(cbs, ncb)
			continue
		}
		if off > 0 && !cb.BlockControlFlags.Has(ReplicateBlock) {
			continue
		}
		cbs = append(cbs, cb)
	}
	return MustNewBundle(p, cbs)
}

type vfReasm struct {
	Reassemblable bool
	Err           string
	Panic         string
	PayloadOK     bool
	BlocksOK      bool
	PrimaryOK     bool
}

// vfTryReassemble calls both entry points on private copies of the fragment list.
func vfTryReassemble(orig Bundle, frs []Bundle) (r vfReasm) {
	defer func() {
		if p := recover(); p != nil {
			r.Panic = fmt.Sprint(p)
		}
	}()
	c1 := append([]Bundle{}, frs...)
	r.Reassemblable = IsBundleReassemblable(c1)
	c2 := append([]Bundle{}, frs...)
	b, err := ReassembleFragments(c2)
	if err != nil {
		r.Err = err.Error()
		return
	}
	r.PayloadOK = bytes.Equal(vfPayload(b), vfPayload(orig))
	r.BlocksOK = vfSameBlocks(vfExtBlocks(b, false), vfExtBlocks(orig, false))
	var p1, p2 bytes.Buffer
	bp, op := b.PrimaryBlock, orig.PrimaryBlock
	_ = bp.MarshalCbor(&p1)
	_ = op.MarshalCbor(&p2)
	r.PrimaryOK = bytes.Equal(p1.Bytes(), p2.Bytes())
	return
}

// ---- (1) replay of Frag.tla behaviours ----------------------------------------------------------

type vfStep struct {
	Act string `json:"act"`
	Off int    `json:"off"`
	Len int    `json:"len"`
	Exp struct {
		Complete bool `json:"complete"`
	} `json:"exp"`
}

type vfHist struct {
	N int      `json:"n"`
	H []vfStep `json:"h"`
}

func TestVerifC10Replay(t *testing.T) {
	var items [][]byte
	if err := vhLines(os.Getenv("VERIF_IN"), func(b []byte) { items = append(items, b) }); err != nil {
		t.Fatal(err)
	}
	var mu sync.Mutex
	steps, complete, conforming := 0, 0, 0
	vhParallel(vhEnvInt("VERIF_PAR", 8), items, func(idx int, item []byte) {
		var h vfHist
		if err := json.Unmarshal(item, &h); err != nil {
			vhEmit(vhRec{"k": "infra", "v": err.Error()})
			return
		}
		variant := vfVariant{Mix: idx % 7, PCrc: (idx / 2) % 3, CCrc: idx % 3, Ipn: idx%5 == 0, Payload: h.N}
		orig, err := vfOrig(variant)
		if err != nil {
			vhEmit(vhRec{"k": "infra", "v": "cannot build original: " + err.Error()})
			return
		}
		var frs []Bundle
		good := true
		nsteps, ncomplete := 0, 0
		for n, s := range h.H {
			frs = append(frs, vfSynth(orig, s.Off, s.Len))
			r := vfTryReassemble(orig, frs)
			nsteps++
			if s.Exp.Complete {
				ncomplete++
			}
			key := ""
			switch {
			case r.Panic != "":
				key = "reassemble/panic"
			case s.Exp.Complete && (r.Err != "" || !r.Reassemblable):
				key = "reassemble/covering-set-rejected"
			case !s.Exp.Complete && (r.Err == "" || r.Reassemblable):
				key = "reassemble/non-covering-set-accepted"
			case s.Exp.Complete && !r.PayloadOK:
				key = "reassemble/wrong-payload"
			case s.Exp.Complete && (!r.BlocksOK || !r.PrimaryOK):
				key = "reassemble/wrong-blocks"
			}
			if key != "" {
				vhViol(key, fmt.Sprintf("N=%d fragments %v: expected complete=%v, observed %+v", h.N, vfIntervals(h.H[:n+1]), s.Exp.Complete, r),
					vhRec{"n": h.N, "variant": variant, "history": h.H[:n+1], "observed": r})
				good = false
				break
			}
		}
		mu.Lock()
		steps += nsteps
		complete += ncomplete
		if good {
			conforming++
		}
		if idx%4000 == 1 {
			vhSample(vhRec{"n": h.N, "fragments": vfIntervals(h.H), "complete_after_last": h.H[len(h.H)-1].Exp.Complete})
		}
		mu.Unlock()
	})
	vhStat("histories", len(items))
	vhStat("histories_conforming", conforming)
	vhStat("steps", steps)
	vhStat("steps_complete", complete)
	vhDone()
}

func vfIntervals(h []vfStep) [][2]int {
	var o [][2]int
	for _, s := range h {
		o = append(o, [2]int{s.Off, s.Len})
	}
	return o
}

// ---- (2) recording real Fragment() / reassembly results -------------------------------------------

type vfFragInfo struct {
	Off      int  `json:"off"`
	Len      int  `json:"len"`
	Total    int  `json:"total"`
	Size     int  `json:"size"`
	HdrOK    bool `json:"hdrok"`
	BlocksOK bool `json:"blocksok"`
	Valid    bool `json:"valid"`
	IsFrag   bool `json:"isfrag"`
	DataOK   bool `json:"dataok"`
}

type vfFragRec struct {
	T          string       `json:"t"`
	Desc       vfVariant    `json:"desc"`
	Plen       int          `json:"plen"`
	Poff       int          `json:"poff"`
	Ptotal     int          `json:"ptotal"`
	IsFrag     bool         `json:"isfrag"`
	Mtu        int          `json:"mtu"`
	InSize     int          `json:"insize"`
	Mnf        bool         `json:"mnf"`
	Err        bool         `json:"err"`
	ErrText    string       `json:"errtext"`
	Same       bool         `json:"same"`
	Frags      []vfFragInfo `json:"frags"`
	ReasmTried bool         `json:"reasm_tried"`
	ReasmOK    bool         `json:"reasm_ok"`
}

type vfIv struct {
	Off int `json:"off"`
	Len int `json:"len"`
}

type vfReasmRec struct {
	T             string    `json:"t"`
	Desc          vfVariant `json:"desc"`
	Total         int       `json:"total"`
	Frags         []vfIv    `json:"frags"`
	Reassemblable bool      `json:"reassemblable"`
	ReasmErr      bool      `json:"reasm_err"`
	PayloadOK     bool      `json:"payload_ok"`
	BlocksOK      bool      `json:"blocks_ok"`
	StoreTried    bool      `json:"store_tried"`
	StoreComplete bool      `json:"store_complete"`
}

type vfRecorder struct {
	mu  sync.Mutex
	f   *os.File
	n   int
	nfr int
	nre int
}

func (r *vfRecorder) put(v interface{}) {
	b, _ := json.Marshal(v)
	r.mu.Lock()
	r.f.Write(append(b, '\n'))
	r.n++
	r.mu.Unlock()
}

func vfHdrSame(a, b PrimaryBlock) bool {
	return a.SourceNode == b.SourceNode && a.Destination == b.Destination && a.ReportTo == b.ReportTo &&
		a.CreationTimestamp == b.CreationTimestamp && a.Lifetime == b.Lifetime && a.Version == b.Version
}

func vfValid(b Bundle) bool {
	if b.CheckValid() != nil {
		return false
	}
	ser := vfSer(b)
	if ser == nil {
		return false
	}
	_, err := ParseBundle(bytes.NewReader(ser))
	return err == nil
}

// vfFragmentRecord calls the real Fragment and describes the result. Returns the record and the fragments.
func vfFragmentRecord(desc vfVariant, in Bundle, mtu int, topLevel bool) (rec vfFragRec, out []Bundle, panicked string) {
	defer func() {
		if p := recover(); p != nil {
			panicked = fmt.Sprint(p)
		}
	}()
	inSer := vfSer(in)
	data := vfPayload(in)
	rec = vfFragRec{T: "frag", Desc: desc, Plen: len(data), Mtu: mtu, InSize: len(inSer),
		Mnf: in.PrimaryBlock.BundleControlFlags.Has(MustNotFragmented), IsFrag: in.PrimaryBlock.HasFragmentation()}
	rec.Ptotal = len(data)
	if rec.IsFrag {
		rec.Poff = int(in.PrimaryBlock.FragmentOffset)
		rec.Ptotal = int(in.PrimaryBlock.TotalDataLength)
	}
	allBlocks, replBlocks := vfExtBlocks(in, false), vfExtBlocks(in, true)
	frs, err := in.Fragment(mtu)
	if err != nil {
		rec.Err, rec.ErrText = true, err.Error()
		rec.Frags = []vfFragInfo{}
		return
	}
	out = frs
	rec.Same = len(frs) == 1 && bytes.Equal(vfSer(frs[0]), inSer)
	rec.Frags = []vfFragInfo{}
	for i, f := range frs {
		fi := vfFragInfo{Off: int(f.PrimaryBlock.FragmentOffset), Len: len(vfPayload(f)), Total: int(f.PrimaryBlock.TotalDataLength),
			Size: len(vfSer(f)), HdrOK: vfHdrSame(f.PrimaryBlock, in.PrimaryBlock), Valid: vfValid(f), IsFrag: f.PrimaryBlock.HasFragmentation()}
		if i == 0 {
			fi.BlocksOK = vfSameBlocks(vfExtBlocks(f, false), allBlocks)
		} else {
			fi.BlocksOK = vfSameBlocks(vfExtBlocks(f, false), replBlocks)
		}
		// the payload bytes must be the bytes of the input at that (relative) position
		rel := fi.Off - rec.Poff
		fi.DataOK = rel >= 0 && rel+fi.Len <= len(data) && bytes.Equal(vfPayload(f), data[rel:rel+fi.Len])
		rec.Frags = append(rec.Frags, fi)
	}
	if topLevel && !rec.Same && len(frs) > 0 {
		rec.ReasmTried = true
		rec.ReasmOK = true
		orders := [][]Bundle{append([]Bundle{}, frs...)}
		rev := make([]Bundle, len(frs))
		for i := range frs {
			rev[len(frs)-1-i] = frs[i]
		}
		orders = append(orders, rev)
		rot := append(append([]Bundle{}, frs[len(frs)/2:]...), frs[:len(frs)/2]...)
		orders = append(orders, rot)
		for _, o := range orders {
			b, err := ReassembleFragments(o)
			if err != nil || !bytes.Equal(vfSer(b), inSer) {
				rec.ReasmOK = false
			}
		}
	}
	return
}

func vfMinSize(in Bundle) int {
	// size of the bundle with an empty payload: lower bound for any useful mtu
	c := in
	c.CanonicalBlocks = nil
	for _, cb := range in.CanonicalBlocks {
		if cb.TypeCode() == ExtBlockTypePayloadBlock {
			ncb := NewCanonicalBlock(1, cb.BlockControlFlags, NewPayloadBlock(nil))
			ncb.SetCRCType(cb.CRCType)
			c.CanonicalBlocks = append(c.CanonicalBlocks, ncb)
		} else {
			c.CanonicalBlocks = append(c.CanonicalBlocks, cb)
		}
	}
	return len(vfSer(c))
}

func TestVerifFragRecord(t *testing.T) {
	thorough := os.Getenv("VERIF_TIER") == "thorough"
	f, err := os.Create(os.Getenv("VERIF_REC"))
	if err != nil {
		t.Fatal(err)
	}
	defer f.Close()
	rec := &vfRecorder{f: f}
	seed := vhSeed()

	var plens []int
	maxSmall := 40
	if thorough {
		maxSmall = 72
	}
	for p := 0; p <= maxSmall; p++ {
		plens = append(plens, p)
	}
	extra := []int{100, 255, 256, 300}
	if thorough {
		extra = append(extra, 1000, 4095, 65535, 65536, 70000)
	}
	plens = append(plens, extra...)

	type job struct {
		v vfVariant
	}
	var jobs []job
	for _, p := range plens {
		for mix := 0; mix < 7; mix++ {
			for k := 0; k < 3; k++ { // crc / endpoint combination
				v := vfVariant{Payload: p, Mix: mix, PCrc: (k + mix) % 3, CCrc: (k + p) % 3, Ipn: (k+p+mix)%4 == 0}
				if p > maxSmall && k > 0 {
					continue
				}
				jobs = append(jobs, job{v})
			}
		}
		jobs = append(jobs, job{vfVariant{Payload: p, Mix: p % 4, PCrc: 2, CCrc: 1, Mnf: true}})
		jobs = append(jobs, job{vfVariant{Payload: p, Mix: 2, PCrc: 1, CCrc: 2, ZeroTs: true}})
	}
	items := make([][]byte, len(jobs))
	for i := range jobs {
		items[i], _ = json.Marshal(jobs[i].v)
	}
	var cmu sync.Mutex
	calls, panics := 0, 0
	vhParallel(vhEnvInt("VERIF_PAR", 8), items, func(idx int, item []byte) {
		v := jobs[idx].v
		rng := rand.New(rand.NewSource(seed*1000003 + int64(idx)))
		orig, err := vfOrig(v)
		if err != nil {
			vhEmit(vhRec{"k": "infra", "v": fmt.Sprintf("cannot build %+v: %v", v, err)})
			return
		}
		size := len(vfSer(orig))
		minSize := vfMinSize(orig)
		lo := minSize - 12
		if lo < 1 {
			lo = 1
		}
		// floor on the mtu so that no more than ~48 fragments result
		floor := lo
		if v.Payload > 48 {
			floor = minSize + v.Payload/48
		}
		var mtus []int
		if v.Payload <= maxSmall {
			for m := floor; m <= size+3; m++ {
				mtus = append(mtus, m)
			}
		} else {
			set := map[int]bool{size - 1: true, size: true, size + 1: true, size + 1000: true, minSize + 23: true, minSize + 24: true,
				minSize + 25: true, minSize + 255: true, minSize + 256: true, minSize + 258: true, lo: true, minSize: true, minSize + 1: true}
			for i := 0; i < 20; i++ {
				set[floor+rng.Intn(size+3-floor)] = true
			}
			for m := range set {
				if m >= floor || m <= minSize+1 {
					if m >= 1 {
						mtus = append(mtus, m)
					}
				}
			}
			sort.Ints(mtus)
		}
		var pools [][]Bundle // up to three successful multi-fragment results for the reassembly records
		ncalls := 0
		for _, m := range mtus {
			r, out, pn := vfFragmentRecord(v, orig, m, true)
			ncalls++
			if pn != "" {
				vhViol("fragment/panic", fmt.Sprintf("Fragment(%d) of %+v panicked: %s", m, v, pn), vhRec{"desc": v, "mtu": m})
				cmu.Lock()
				panics++
				cmu.Unlock()
				continue
			}
			rec.put(r)
			if !r.Err && !r.Same && len(out) >= 2 && len(out) <= 6 {
				if len(pools) < 3 || rng.Intn(4) == 0 {
					if len(pools) < 3 {
						pools = append(pools, out)
					} else {
						pools[rng.Intn(3)] = out
					}
				}
				// second level: fragment one of the fragments again
				if rng.Intn(3) == 0 || v.Payload <= 12 {
					fi := rng.Intn(len(out))
					sub := out[fi]
					subMin := vfMinSize(sub)
					for _, m2 := range []int{subMin + 1, subMin + 2, subMin + 1 + len(vfPayload(sub))/2, len(vfSer(sub)) - 1, len(vfSer(sub))} {
						if m2 < 1 {
							continue
						}
						r2, out2, pn2 := vfFragmentRecord(v, sub, m2, false)
						ncalls++
						if pn2 != "" {
							vhViol("fragment/panic", fmt.Sprintf("Fragment(%d) of a fragment of %+v panicked: %s", m2, v, pn2), vhRec{"desc": v, "mtu": m, "mtu2": m2})
							continue
						}
						rec.put(r2)
						if !r2.Err && !r2.Same && len(out2) >= 2 && len(out2) <= 4 && len(pools) > 0 && vfConsistent(orig, out2) {
							pools[len(pools)-1] = append(append([]Bundle{}, pools[len(pools)-1]...), out2...)
						}
					}
				}
			}
		}
		// reassembly records over the pooled real fragments
		var pool []Bundle
		for _, p := range pools {
			for _, fr := range p {
				if vfConsistent(orig, []Bundle{fr}) {
					pool = append(pool, fr)
				}
			}
		}
		if len(pool) > 14 {
			rng.Shuffle(len(pool), func(i, j int) { pool[i], pool[j] = pool[j], pool[i] })
			pool = pool[:14]
		}
		if len(pool) > 0 {
			trials := 120
			if thorough {
				trials = 400
			}
			exhaustive := len(pool) <= 7
			total := 1 << uint(len(pool))
			for tix := 0; tix < trials || (exhaustive && tix < total); tix++ {
				var sel []Bundle
				if exhaustive && tix < total {
					if tix == 0 {
						continue
					}
					for b := 0; b < len(pool); b++ {
						if tix&(1<<uint(b)) != 0 {
							sel = append(sel, pool[b])
						}
					}
				} else {
					for b := 0; b < len(pool); b++ {
						if rng.Intn(2) == 0 {
							sel = append(sel, pool[b])
						}
					}
					if len(sel) == 0 {
						continue
					}
					if rng.Intn(3) == 0 { // duplicate one
						sel = append(sel, sel[rng.Intn(len(sel))])
					}
				}
				rng.Shuffle(len(sel), func(i, j int) { sel[i], sel[j] = sel[j], sel[i] })
				rr := vfTryReassemble(orig, sel)
				if rr.Panic != "" {
					vhViol("reassemble/panic", fmt.Sprintf("reassembly of real fragments %v of %+v panicked: %s", vfIvs(sel), v, rr.Panic),
						vhRec{"desc": v, "fragments": vfIvs(sel)})
					continue
				}
				rec.put(vfReasmRec{T: "reasm", Desc: v, Total: v.Payload, Frags: vfIvs(sel), Reassemblable: rr.Reassemblable,
					ReasmErr: rr.Err != "", PayloadOK: rr.PayloadOK, BlocksOK: rr.BlocksOK && rr.PrimaryOK})
			}
		}
		cmu.Lock()
		calls += ncalls
		cmu.Unlock()
	})
	vhStat("bundles", len(jobs))
	vhStat("fragment_calls", calls)
	vhStat("records", rec.n)
	vhDone()
}

// vfConsistent: header offsets/total of real fragments agree with the bytes they carry.
func vfConsistent(orig Bundle, frs []Bundle) bool {
	data := vfPayload(orig)
	for _, f := range frs {
		off, l := int(f.PrimaryBlock.FragmentOffset), len(vfPayload(f))
		if !f.PrimaryBlock.HasFragmentation() || int(f.PrimaryBlock.TotalDataLength) != len(data) || off+l > len(data) ||
			!bytes.Equal(vfPayload(f), data[off:off+l]) {
			return false
		}
	}
	return true
}

func vfIvs(frs []Bundle) []vfIv {
	o := []vfIv{}
	for _, f := range frs {
		o = append(o, vfIv{int(f.PrimaryBlock.FragmentOffset), len(vfPayload(f))})
	}
	return o
}
