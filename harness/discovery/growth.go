package discovery

// Replay of Discovery.tla behaviours on a real Manager (growth beyond the listed properties): every packet of a behaviour is
// encoded with MarshalAnnouncements and given to Manager.notify / notify6, the clients handed to RegisterFunc are compared
// (as a bag, handleDiscovery runs in goroutines of its own) with the registrations the specification expects.

import (
	"encoding/json"
	"fmt"
	"os"
	"sort"
	"strings"
	"sync"
	"testing"
	"time"

	"github.com/schollz/peerdiscovery"

	"github.com/dtn7/dtn7-go/pkg/bpv7"
	"github.com/dtn7/dtn7-go/pkg/cla"
)

type vgEid struct {
	Node string `json:"node"`
	Svc  string `json:"svc"`
}

type vgAnn struct {
	T    string `json:"t"`
	Eid  vgEid  `json:"eid"`
	Port uint   `json:"port"`
}

type vgReg struct {
	T         string `json:"t"`
	Host      string `json:"host"`
	V6        bool   `json:"v6"`
	Port      uint   `json:"port"`
	Permanent bool   `json:"permanent"`
	Peer      vgEid  `json:"peer"`
	Own       string `json:"own"`
}

type vgStep struct {
	Host string  `json:"host"`
	V6   bool    `json:"v6"`
	Anns []vgAnn `json:"anns"`
	Cut  bool    `json:"cut"`
	Regs []vgReg `json:"regs"`
}

func vgEndpoint(e vgEid) bpv7.EndpointID {
	if e.Node == "none" {
		return bpv7.DtnNone()
	}
	return bpv7.MustNewEndpointID("dtn://" + e.Node + "/" + e.Svc)
}

func vgType(t string) cla.CLAType {
	switch t {
	case "mtcp":
		return cla.MTCP
	case "tcpcl":
		return cla.TCPCLv4
	case "ws":
		return cla.TCPCLv4WebSocket
	case "bbc":
		return cla.BBC
	}
	return cla.CLAType(7) // "unknown": no CLA of this number exists
}

type vgPeered interface {
	GetPeerEndpointID() bpv7.EndpointID
}
type vgOwned interface {
	GetEndpointID() bpv7.EndpointID
}

func vgDescribe(cv cla.Convergable) string {
	var b strings.Builder
	c, ok := cv.(cla.Convergence)
	if !ok {
		return fmt.Sprintf("%T is no Convergence", cv)
	}
	fmt.Fprintf(&b, "%T addr=%s", c, c.Address())
	if _, ok := cv.(cla.ConvergenceSender); ok {
		fmt.Fprintf(&b, " sender")
	}
	if p, ok := c.(vgPeered); ok {
		fmt.Fprintf(&b, " peer=%v", p.GetPeerEndpointID())
	}
	if o, ok := c.(vgOwned); ok {
		fmt.Fprintf(&b, " own=%v", o.GetEndpointID())
	}
	fmt.Fprintf(&b, " permanent=%v", c.IsPermanent())
	return b.String()
}

func vgExpect(r vgReg, self string) string {
	host := r.Host
	if r.V6 {
		host = "[" + host + "]"
	}
	addr := fmt.Sprintf("%s:%d", host, r.Port)
	switch r.T {
	case "mtcp":
		return fmt.Sprintf("*mtcp.MTCPClient addr=%s sender peer=%v permanent=%v", addr, vgEndpoint(r.Peer), r.Permanent)
	default:
		return fmt.Sprintf("*tcpclv4.Client addr=%s sender peer=%v own=%v permanent=%v", addr, vgEndpoint(r.Peer), bpv7.MustNewEndpointID("dtn://"+r.Own+"/"), r.Permanent)
	}
}

func vgReplay(h []vgStep, item []byte, self string) string {
	var mu sync.Mutex
	var got []string
	m := &Manager{NodeId: bpv7.MustNewEndpointID("dtn://" + self + "/"), RegisterFunc: func(c cla.Convergable) {
		d := vgDescribe(c)
		mu.Lock()
		got = append(got, d)
		mu.Unlock()
	}}
	bad := func(i int, key, desc string) string {
		vhViol("discovery/"+key, fmt.Sprintf("packet %d: %s", i, desc), vhRec{"history": json.RawMessage(item), "step": i})
		return "viol"
	}
	for i, s := range h {
		var anns []Announcement
		for _, a := range s.Anns {
			anns = append(anns, Announcement{Type: vgType(a.T), Endpoint: vgEndpoint(a.Eid), Port: a.Port})
		}
		data, err := MarshalAnnouncements(anns)
		if err != nil {
			vhEmit(vhRec{"k": "infra", "v": "MarshalAnnouncements: " + err.Error()})
			return "infra"
		}
		if s.Cut {
			data = data[:len(data)-1]
		}
		mu.Lock()
		got = nil
		mu.Unlock()
		d := peerdiscovery.Discovered{Address: s.Host, Payload: data}
		if s.V6 {
			m.notify6(d)
		} else {
			m.notify(d)
		}
		// every announcement is handled in a goroutine of its own: wait for the expected number, then see that no more come
		deadline := time.Now().Add(3 * time.Second)
		for {
			mu.Lock()
			n := len(got)
			mu.Unlock()
			if n >= len(s.Regs) || time.Now().After(deadline) {
				break
			}
			time.Sleep(50 * time.Microsecond)
		}
		time.Sleep(400 * time.Microsecond)
		mu.Lock()
		g := append([]string{}, got...)
		mu.Unlock()
		var want []string
		for _, r := range s.Regs {
			want = append(want, vgExpect(r, self))
		}
		sort.Strings(g)
		sort.Strings(want)
		if strings.Join(g, " | ") != strings.Join(want, " | ") {
			return bad(i, "registrations", fmt.Sprintf("registered {%s}, expected {%s}", strings.Join(g, " | "), strings.Join(want, " | ")))
		}
	}
	return "ok"
}

func TestVerifDiscoveryReplay(t *testing.T) {
	var items [][]byte
	if err := vhLines(os.Getenv("VERIF_IN"), func(b []byte) { items = append(items, b) }); err != nil {
		t.Fatal(err)
	}
	self := os.Getenv("VERIF_SELF")
	var mu sync.Mutex
	st := map[string]int{}
	vhParallel(vhEnvInt("VERIF_PAR", 16), items, func(idx int, item []byte) {
		var h []vgStep
		if err := json.Unmarshal(item, &h); err != nil {
			vhEmit(vhRec{"k": "infra", "v": err.Error()})
			return
		}
		status := vgReplay(h, item, self)
		mu.Lock()
		st["histories"]++
		st[status]++
		for _, s := range h {
			st["packets"]++
			st["announcements"] += len(s.Anns)
			st["registrations"] += len(s.Regs)
			if s.Cut {
				st["cut"]++
			}
			if s.V6 {
				st["v6"]++
			}
			for _, r := range s.Regs {
				st["reg_"+r.T]++
			}
			for _, a := range s.Anns {
				if a.Eid.Node == self {
					st["ann_self"]++
				}
				if a.T == "ws" || a.T == "bbc" {
					st["ann_unsupported"]++
				}
				if a.T == "unknown" {
					st["ann_unknown"]++
				}
			}
		}
		mu.Unlock()
		if idx%500 == 0 {
			vhSample(vhRec{"history": json.RawMessage(item)})
		}
	})
	for k, n := range st {
		vhStat(k, n)
	}
	vhDone()
}
