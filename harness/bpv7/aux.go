package bpv7

// C17 (bpv7 part): bundle IDs, status reports / administrative records, creation timestamps, endpoint IDs as URI and CBOR.

import (
	"bytes"
	"encoding/json"
	"fmt"
	"io"
	"os"
	"reflect"
	"testing"

	"github.com/dtn7/cboring"
)

type vaCase struct {
	K      string `json:"k"`
	Valid  bool   `json:"valid"`
	Bytes  []int  `json:"bytes"`
	Src    vwEid  `json:"src"`
	Ts     []int  `json:"ts"`
	Seq    []int  `json:"seq"`
	Frag   bool   `json:"frag"`
	Foff   []int  `json:"foff"`
	Ftotal []int  `json:"ftotal"`
	Which  int    `json:"which"`
	Time   bool   `json:"time"`
	T      []int  `json:"t"`
	Reason int    `json:"reason"`
	S      []int  `json:"s"`
}

var vaSentinel = []byte{0xa5, 0x5a, 0x17}

func TestVerifC17Bpv7(t *testing.T) {
	st := map[string]int{}
	if err := vhLines(os.Getenv("VERIF_IN"), func(raw []byte) {
		var c vaCase
		if err := json.Unmarshal(raw, &c); err != nil {
			t.Fatal(err)
		}
		viol := func(key, desc string) {
			vhViol("aux/"+c.K+"/"+key, desc, vhRec{"case": json.RawMessage(raw)})
		}
		defer func() {
			if p := recover(); p != nil {
				viol("panic", fmt.Sprint(p))
			}
		}()
		spec := vwBytes(c.Bytes)
		switch c.K {
		case "bundle_id":
			src, err := vwEidBuild(c.Src)
			if err != nil {
				return
			}
			id := BundleID{SourceNode: src, Timestamp: NewCreationTimestamp(DtnTime(vwU(c.Ts)), vwU(c.Seq)), IsFragment: c.Frag}
			if c.Frag {
				id.FragmentOffset, id.TotalDataLength = vwU(c.Foff), vwU(c.Ftotal)
			}
			var buf bytes.Buffer
			if err := id.MarshalCbor(&buf); err != nil {
				viol("marshal-error", err.Error())
				return
			}
			if !bytes.Equal(buf.Bytes(), spec) {
				vhNote(fmt.Sprintf("format drift (diagnostic): bundle id %x vs spec %x", buf.Bytes(), spec))
			}
			for _, in := range [][]byte{buf.Bytes(), spec} {
				r := bytes.NewReader(append(append([]byte{}, in...), vaSentinel...))
				got := BundleID{IsFragment: c.Frag}
				if err := got.UnmarshalCbor(r); err != nil {
					viol("decode-error", err.Error())
					return
				}
				if got != id {
					viol("round-trip", fmt.Sprintf("decoded %v, encoded %v", got, id))
					return
				}
				if rest, _ := io.ReadAll(r); !bytes.Equal(rest, vaSentinel) {
					viol("alignment", "decoder did not consume exactly the encoding")
					return
				}
			}
			// creation timestamp on its own
			ct := id.Timestamp
			buf.Reset()
			_ = ct.MarshalCbor(&buf)
			var ct2 CreationTimestamp
			r := bytes.NewReader(append(append([]byte{}, buf.Bytes()...), vaSentinel...))
			if err := ct2.UnmarshalCbor(r); err != nil || ct2 != ct {
				viol("timestamp-round-trip", fmt.Sprintf("creation timestamp %v decodes to %v (%v)", ct, ct2, err))
				return
			}
			if rest, _ := io.ReadAll(r); !bytes.Equal(rest, vaSentinel) {
				viol("alignment", "timestamp decoder did not consume exactly the encoding")
				return
			}
			// endpoint CBOR form on its own
			buf.Reset()
			_ = cboring.Marshal(&src, &buf)
			var e2 EndpointID
			r = bytes.NewReader(append(append([]byte{}, buf.Bytes()...), vaSentinel...))
			if err := cboring.Unmarshal(&e2, r); err != nil || e2 != src {
				viol("endpoint-round-trip", fmt.Sprintf("endpoint %v decodes to %v (%v)", src, e2, err))
				return
			}
			if rest, _ := io.ReadAll(r); !bytes.Equal(rest, vaSentinel) {
				viol("alignment", "endpoint decoder did not consume exactly the encoding")
				return
			}
			st["bundle_ids"]++
		case "status_report":
			src, err := vwEidBuild(c.Src)
			if err != nil {
				return
			}
			flags := BundleControlFlags(0)
			if c.Time {
				flags |= RequestStatusTime
			}
			if c.Frag {
				flags |= IsFragment
			}
			pb := NewPrimaryBlock(flags, MustNewEndpointID("dtn://dst/"), src, NewCreationTimestamp(DtnTime(vwU(c.Ts)), vwU(c.Seq)), 1000)
			if c.Frag {
				pb.FragmentOffset, pb.TotalDataLength = vwU(c.Foff), vwU(c.Ftotal)
			}
			subj := MustNewBundle(pb, []CanonicalBlock{NewCanonicalBlock(1, 0, NewPayloadBlock([]byte("x")))})
			sr := NewStatusReport(subj, StatusInformationPos(c.Which), StatusReportReason(c.Reason), DtnTime(vwU(c.T)))
			cb, err := AdministrativeRecordToCbor(sr)
			if err != nil {
				viol("marshal-error", err.Error())
				return
			}
			real := cb.Value.(*PayloadBlock).Data()
			if !bytes.Equal(real, spec) {
				vhNote(fmt.Sprintf("format drift (diagnostic): status report %x vs spec %x", real, spec))
			}
			for _, in := range [][]byte{real, spec} {
				ar, err := NewAdministrativeRecordFromCbor(in)
				if err != nil {
					viol("decode-error", fmt.Sprintf("%v (input %x)", err, in))
					return
				}
				got, ok := ar.(*StatusReport)
				if !ok || !reflect.DeepEqual(got, sr) {
					viol("round-trip", fmt.Sprintf("decoded %v, encoded %v", ar, sr))
					return
				}
				// on a stream
				r := bytes.NewReader(append(append([]byte{}, in...), vaSentinel...))
				if _, err := GetAdministrativeRecordManager().ReadAdministrativeRecord(r); err != nil {
					viol("decode-error", err.Error())
					return
				}
				if rest, _ := io.ReadAll(r); !bytes.Equal(rest, vaSentinel) {
					viol("alignment", "administrative record decoder did not consume exactly the encoding")
					return
				}
			}
			st["status_reports"]++
		case "uri":
			s := vwStr(c.S)
			e, err := NewEndpointID(s)
			if c.Valid != (err == nil) {
				if err == nil && e.String() != s {
					viol("text-structure-not-unique", fmt.Sprintf("URI %q is accepted and denotes the same endpoint as %q", s, e.String()))
				} else {
					viol("grammar", fmt.Sprintf("URI %q: accepted=%v, grammar says %v (%v)", s, err == nil, c.Valid, err))
				}
				return
			}
			if err == nil {
				if e.String() != s {
					viol("text-structure-not-unique", fmt.Sprintf("URI %q parses to an endpoint whose text is %q", s, e.String()))
					return
				}
				e2, err2 := NewEndpointID(e.String())
				if err2 != nil || e2 != e {
					viol("uri-round-trip", fmt.Sprintf("Parse(String(e)) = %v (%v), e = %v", e2, err2, e))
					return
				}
				var buf bytes.Buffer
				if err := cboring.Marshal(&e, &buf); err != nil {
					viol("marshal-error", err.Error())
					return
				}
				var e3 EndpointID
				if err := cboring.Unmarshal(&e3, &buf); err != nil || e3 != e {
					viol("endpoint-round-trip", fmt.Sprintf("endpoint %v decodes to %v (%v)", e, e3, err))
					return
				}
				st["uris_accepted"]++
			} else {
				st["uris_rejected"]++
			}
		}
	}); err != nil {
		t.Fatal(err)
	}
	for k, n := range st {
		vhStat(k, n)
	}
	vhDone()
}
