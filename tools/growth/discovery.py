"""Growth beyond the listed properties: what a received discovery packet registers (Discovery.tla)."""
import json
from vlib import *

FILES = ["common/vh.go", "discovery/growth.go"]

MC = '''---- MODULE MCDiscovery ----
EXTENDS Discovery
MCEids == {[node |-> "self", svc |-> ""], [node |-> "self", svc |-> "app"], [node |-> "n1", svc |-> ""], [node |-> "n2", svc |-> "mail"]}
MCEidsSmall == {[node |-> "self", svc |-> "app"], [node |-> "n1", svc |-> ""]}
====
'''


def cfg(steps, emit, maxann, types='{"mtcp", "tcpcl", "ws", "bbc", "unknown"}', eids="MCEids", hosts='{"10.0.0.7", "fe80::1"}', ports="{1, 4556}", view=True):
    t = ('SPECIFICATION Spec\nCONSTANTS\n Self = "self"\n Eids <- %s\n Types = %s\n Hosts = %s\n Ports = %s\n'
         ' MaxAnn = %d\n MaxSteps = %d\n EmitMode = "%s"\nINVARIANTS NeverSelf NeverPermanent NothingInvented OnlySupported Emit\n'
         % (eids, types, hosts, ports, maxann, steps, emit))
    if view:
        t += "VIEW SView\n"
    return t


def run(tier):
    chk = Check("G-discovery", tier, "model_checking", growth=True)
    quick = tier == "quick"
    chk.assumptions = ["packets are given to Manager.notify / notify6 by the harness; the multicast socket layer (peerdiscovery) is not exercised",
                       "the clients are compared when handed to RegisterFunc, they are never started"]
    chk.cov["rule"] = ("Discovery.tla is model-checked (never a link to the node itself, never a permanent one, nothing invented, unsupported CLA types "
                       "dropped, a packet with an unknown CLA type number unusable as a whole); every one-packet behaviour with up to two announcements plus random deeper ones are replayed on a real Manager, the bag of "
                       "clients handed to RegisterFunc (type, address, peer, own ID, permanence) compared with the specification's.")
    m = {"MCDiscovery.tla": MC}
    res = tlc_parallel([
        ("mc", dict(module="MCDiscovery", cfg_text=cfg(2 if quick else 3, "none", 2, eids="MCEidsSmall", hosts='{"h"}', ports="{1}"), name="disc-mc",
                    extra_files=m, deadlock=False, workers=4, timeout=1500)),
        ("gen", dict(module="MCDiscovery", cfg_text=cfg(1, "edge", 2, hosts='{"10.0.0.7"}'), name="disc-gen", extra_files=m, deadlock=False, workers=4, timeout=1500)),
        ("sim", dict(module="MCDiscovery", cfg_text=cfg(4, "final", 3, hosts='{"10.0.0.7"}', ports="{4556}", view=False), name="disc-sim", extra_files=m,
                     deadlock=False, workers=1, simulate=300 if quick else 5000, depth=6, tseed=seed() * 11 + 3)),
    ], par=3)
    chk.add_tlc("exhaustive", need_ok(res["mc"], "Discovery exhaustive"))
    g = need_ok(res["gen"], "Discovery generator")
    s = need_ok(res["sim"], "Discovery simulate")
    chk.add_tlc("edge behaviours", g, {"random_deep": len(s.traces)})
    seen, hs = set(), []
    for h in g.traces + s.traces:
        k = json.dumps(h, sort_keys=True)
        if k not in seen:
            seen.add(k)
            hs.append(h)
    inp = write_input("discovery.ndjson", hs)
    st = run_harness(chk, "discovery replay", "pkg/discovery", FILES, "TestVerifDiscoveryReplay", env={"VERIF_IN": inp, "VERIF_SELF": "self"}, timeout=1500)
    if st.get("histories") != len(hs) or st.get("reg_mtcp", 0) < 50 or st.get("reg_tcpcl", 0) < 50 or st.get("cut", 0) == 0 or st.get("v6", 0) == 0 \
            or st.get("ann_self", 0) == 0 or st.get("ann_unsupported", 0) == 0 or st.get("ann_unknown", 0) == 0:
        raise InfraError("vacuous or incomplete: %s" % st)
    chk.cov["traces_validated_against_impl"] = len(hs)
    chk.cov["evaluations"] = len(hs)
    chk.cov["distinct_nontrivial"] = len(hs)
    return chk.finish()
