#!/usr/bin/env python3
"""Confirm a seeded change and run checks against it.

usage: tools/seed_eval.py confirm <worktree> <demo test regex> <pkg>     (in the scratch worktree: demo fails with, passes without)
       tools/seed_eval.py run <seed dir> <check id> [tier]              (apply patch to /repo, run the check, undo)
"""
import json, os, subprocess, sys, time

ENV = dict(os.environ, GOFLAGS="-mod=mod", GOPROXY="off", GOSUMDB="off", GOTOOLCHAIN="local")


def sh(cmd, cwd, timeout=1800):
    p = subprocess.run(cmd, cwd=cwd, shell=True, env=ENV, stdout=subprocess.PIPE, stderr=subprocess.STDOUT, text=True, timeout=timeout)
    return p.returncode, p.stdout


def confirm(wt, test, pkg):
    res = {}
    rc, out = sh("go build ./... ", wt)
    res["build_with_change"] = rc == 0
    rc, out = sh("go test -vet=off -count=1 -run '%s' ./%s/" % (test, pkg), wt)
    res["demo_fails_with_change"] = rc != 0
    res["demo_output_with"] = out[-600:]
    sh("git diff -- . ':(exclude)*_test.go' > /tmp/seed-confirm.diff && git apply -R /tmp/seed-confirm.diff", wt)
    rc, out = sh("go test -vet=off -count=1 -run '%s' ./%s/" % (test, pkg), wt)
    res["demo_passes_without_change"] = rc == 0
    res["demo_output_without"] = out[-300:]
    sh("git apply /tmp/seed-confirm.diff", wt)
    print(json.dumps(res, indent=1))
    return res


def suite(wt):
    rc, out = sh("go test -vet=off -count=1 ./... 2>&1 | grep -v '^ok\\|no test files'", wt, timeout=2400)
    print("suite (non-ok lines):", out[-1500:])


def run(seed, check, tier="quick"):
    """Apply the seeded change in a scratch worktree of /repo (never in /repo itself, so that other runs are not disturbed),
    run the check against it (VERIF_REPO), remove the worktree. The evidence file of the clean tree is restored afterwards."""
    patch = os.path.join(seed, "patch.diff")
    wt = "/tmp/seedrepo-%d" % os.getpid()
    rc, out = sh("git -C /repo worktree add --detach %s HEAD" % wt, "/repo")
    if rc != 0:
        print("cannot create worktree:", out)
        sys.exit(2)
    t0 = time.time()
    ev = "/verif/evidence/%s.json" % check
    saved = open(ev).read() if os.path.exists(ev) else None
    try:
        rc, out = sh("git -C %s apply %s" % (wt, patch), wt)
        if rc != 0:
            print("patch does not apply:", out)
            sys.exit(2)
        rc, out = sh("VERIF_REPO=%s bin/check %s %s" % (wt, check, tier), "/verif", timeout=3600)
    finally:
        sh("git -C /repo worktree remove --force %s; git -C /repo worktree prune" % wt, "/repo")
        if saved is not None:      # evidence must describe runs on the unchanged tree only
            open(ev, "w").write(saved)
    lines = [l for l in out.splitlines() if l.startswith(("VIOLATION", "  key=", "KNOWN", "OK", "ERROR"))]
    print("check %s rc=%d in %.0fs" % (check, rc, time.time() - t0))
    print("\n".join(l[:400] for l in lines[:12]))
    return rc


if __name__ == "__main__":
    if sys.argv[1] == "confirm":
        confirm(*sys.argv[2:5])
    elif sys.argv[1] == "suite":
        suite(sys.argv[2])
    else:
        sys.exit(1 if run(*sys.argv[2:]) == 1 else 0)
