package tcpclv4

// A real TCPCLv4 client (DialTCP + Start + Send) against a scripted passive peer that declares a segment MRU in its SESS_INIT,
// acknowledges every segment and records what arrives on the wire. The records are judged by Tcpcl!SegsFrom: the segments of a
// transfer are those of a correct sender for the peer's MRU, whatever this node's own MRU is.

import (
	"bufio"
	"bytes"
	"encoding/json"
	"fmt"
	"io"
	"net"
	"os"
	"testing"
	"time"

	log "github.com/sirupsen/logrus"

	"github.com/dtn7/dtn7-go/pkg/bpv7"
	"github.com/dtn7/dtn7-go/pkg/cla"
	"github.com/dtn7/dtn7-go/pkg/cla/tcpclv4/internal/msgs"
)

type vcSeg struct {
	Len   int  `json:"len"`
	Start bool `json:"start"`
	End   bool `json:"end"`
}

type vcWire struct {
	T      string  `json:"t"`
	M      int     `json:"m"`
	L      int     `json:"l"`
	Segs   []vcSeg `json:"segs"`
	SendOk bool    `json:"send_ok"`
	Same   bool    `json:"same"` // the concatenated segments are the bundle's encoding
	Err    string  `json:"err"`
}

func vcPeer(ln net.Listener, mru uint64, got chan<- vcWire) {
	conn, err := ln.Accept()
	if err != nil {
		got <- vcWire{Err: "accept: " + err.Error()}
		return
	}
	defer conn.Close()
	_ = conn.SetDeadline(time.Now().Add(20 * time.Second))
	r := bufio.NewReader(conn)
	w := bufio.NewWriter(conn)
	send := func(m msgs.Message) error {
		if err := m.Marshal(w); err != nil {
			return err
		}
		return w.Flush()
	}
	var ch msgs.ContactHeader
	if err := ch.Unmarshal(r); err != nil {
		got <- vcWire{Err: "contact header: " + err.Error()}
		return
	}
	if err := send(msgs.NewContactHeader(0)); err != nil {
		got <- vcWire{Err: err.Error()}
		return
	}
	if m, err := msgs.ReadMessage(r); err != nil {
		got <- vcWire{Err: "sess_init: " + err.Error()}
		return
	} else if _, ok := m.(*msgs.SessionInitMessage); !ok {
		got <- vcWire{Err: fmt.Sprintf("expected SESS_INIT, got %T", m)}
		return
	}
	if err := send(msgs.NewSessionInitMessage(0, mru, 1<<30, "dtn://peer/")); err != nil {
		got <- vcWire{Err: err.Error()}
		return
	}
	var rec vcWire
	var data bytes.Buffer
	acked := uint64(0)
	for {
		m, err := msgs.ReadMessage(r)
		if err != nil {
			rec.Err = "reading: " + err.Error()
			break
		}
		seg, ok := m.(*msgs.DataTransmissionMessage)
		if !ok {
			if _, ka := m.(*msgs.KeepaliveMessage); ka {
				continue
			}
			rec.Err = fmt.Sprintf("unexpected %T", m)
			break
		}
		rec.Segs = append(rec.Segs, vcSeg{Len: len(seg.Data), Start: seg.Flags&msgs.SegmentStart != 0, End: seg.Flags&msgs.SegmentEnd != 0})
		data.Write(seg.Data)
		acked += uint64(len(seg.Data))
		if err := send(msgs.NewDataAcknowledgementMessage(seg.Flags, seg.TransferId, acked)); err != nil {
			rec.Err = err.Error()
			break
		}
		if seg.Flags&msgs.SegmentEnd != 0 || len(rec.Segs) > 20000 {
			break
		}
	}
	rec.L = data.Len()
	rec.T = data.String()
	got <- rec
	// stay until the client ends the session (closing first could overtake the last acknowledgement)
	for {
		if _, err := msgs.ReadMessage(r); err != nil {
			return
		}
	}
}

func TestVerifC11Client(t *testing.T) {
	log.SetOutput(io.Discard)
	f, err := os.Create(os.Getenv("VERIF_REC"))
	if err != nil {
		t.Fatal(err)
	}
	defer f.Close()
	n := 0
	for _, payload := range []int{0, 10, 200, 3000} {
		for _, mru := range []uint64{1, 5, 64, 1000, 4096, 1 << 20, 1 << 22} {
			if mru == 1 && payload > 200 {
				continue
			}
			ln, err := net.Listen("tcp", "127.0.0.1:0")
			if err != nil {
				t.Fatal(err)
			}
			got := make(chan vcWire, 1)
			go vcPeer(ln, mru, got)
			b, err := bpv7.Builder().CRC(bpv7.CRC32).Source("dtn://self/").Destination("dtn://peer/").CreationTimestampNow().Lifetime("1h").
				PayloadBlock(bytes.Repeat([]byte{byte(payload)}, payload)).Build()
			if err != nil {
				t.Fatal(err)
			}
			var enc bytes.Buffer
			_ = b.WriteBundle(&enc)
			cl := DialTCP(ln.Addr().String(), bpv7.MustNewEndpointID("dtn://self/"), false)
			rec := vcWire{}
			if err, _ := cl.Start(); err != nil {
				rec.Err = "start: " + err.Error()
			} else {
				sendErr := cl.Send(b)
				select {
				case rec = <-got:
				case <-time.After(25 * time.Second):
					rec.Err = "peer saw no end of the transfer"
				}
				rec.SendOk = sendErr == nil
				_ = cl.Close()
			}
			_ = ln.Close()
			rec.Same = rec.T == enc.String()
			rec.T, rec.M = "wire", int(mru)
			if rec.Segs == nil {
				rec.Segs = []vcSeg{}
			}
			if rec.L == 0 {
				rec.L = enc.Len()
			}
			out, _ := json.Marshal(rec)
			f.Write(append(out, '\n'))
			n++
		}
	}
	vhStat("sessions", n)
	vhDone()
}

// The other direction: the scripted peer sends three bundles one after the other in one session; what the client hands up is kept
// (as the Core would keep it while it works on it) and compared with what was sent only after all of them have arrived.
func vcSendingPeer(ln net.Listener, bundles [][]byte, done chan<- string) {
	conn, err := ln.Accept()
	if err != nil {
		done <- "accept: " + err.Error()
		return
	}
	defer conn.Close()
	_ = conn.SetDeadline(time.Now().Add(20 * time.Second))
	r := bufio.NewReader(conn)
	w := bufio.NewWriter(conn)
	send := func(m msgs.Message) error {
		if err := m.Marshal(w); err != nil {
			return err
		}
		return w.Flush()
	}
	var ch msgs.ContactHeader
	if err := ch.Unmarshal(r); err != nil {
		done <- "contact header: " + err.Error()
		return
	}
	_ = send(msgs.NewContactHeader(0))
	if _, err := msgs.ReadMessage(r); err != nil {
		done <- "sess_init: " + err.Error()
		return
	}
	_ = send(msgs.NewSessionInitMessage(0, 1<<20, 1<<30, "dtn://peer/"))
	for i, enc := range bundles {
		if err := send(msgs.NewDataTransmissionMessage(msgs.SegmentStart|msgs.SegmentEnd, uint64(i+1), enc)); err != nil {
			done <- err.Error()
			return
		}
		for {
			m, err := msgs.ReadMessage(r)
			if err != nil {
				done <- "waiting for the acknowledgement: " + err.Error()
				return
			}
			if _, ok := m.(*msgs.DataAcknowledgementMessage); ok {
				break
			}
		}
	}
	done <- ""
	for {
		if _, err := msgs.ReadMessage(r); err != nil {
			return
		}
	}
}

func TestVerifC11ClientReceive(t *testing.T) {
	log.SetOutput(io.Discard)
	f, err := os.Create(os.Getenv("VERIF_REC"))
	if err != nil {
		t.Fatal(err)
	}
	defer f.Close()
	n := 0
	for round := 0; round < 4; round++ {
		var encs [][]byte
		for i := 0; i < 3; i++ {
			b, err := bpv7.Builder().CRC(bpv7.CRC32).Source(fmt.Sprintf("dtn://peer/r%d", round)).Destination("dtn://self/").CreationTimestampNow().Lifetime("1h").
				PayloadBlock([]byte(fmt.Sprintf("round %d bundle %d %s", round, i, bytes.Repeat([]byte{'x'}, round*100)))).Build()
			if err != nil {
				t.Fatal(err)
			}
			var enc bytes.Buffer
			_ = b.WriteBundle(&enc)
			encs = append(encs, enc.Bytes())
		}
		ln, err := net.Listen("tcp", "127.0.0.1:0")
		if err != nil {
			t.Fatal(err)
		}
		done := make(chan string, 1)
		go vcSendingPeer(ln, encs, done)
		cl := DialTCP(ln.Addr().String(), bpv7.MustNewEndpointID("dtn://self/"), false)
		rec := map[string]interface{}{"t": "received", "sent": len(encs), "err": ""}
		var handed []*bpv7.Bundle
		if err, _ := cl.Start(); err != nil {
			rec["err"] = "start: " + err.Error()
		} else {
			to := time.After(20 * time.Second)
		collect:
			for len(handed) < len(encs) {
				select {
				case cs := <-cl.Channel():
					if cs.MessageType == cla.ReceivedBundle {
						handed = append(handed, cs.Message.(cla.ConvergenceReceivedBundle).Bundle)
					}
				case <-to:
					rec["err"] = "not all bundles were handed up"
					break collect
				}
			}
			if e := <-done; e != "" && rec["err"] == "" {
				rec["err"] = e
			}
			_ = cl.Close()
		}
		_ = ln.Close()
		same := []bool{}
		for i, hb := range handed {
			var enc bytes.Buffer
			_ = hb.WriteBundle(&enc)
			same = append(same, i < len(encs) && bytes.Equal(enc.Bytes(), encs[i]))
		}
		rec["handed"] = len(handed)
		rec["same"] = same
		out, _ := json.Marshal(rec)
		f.Write(append(out, '\n'))
		n++
	}
	vhStat("sessions", n)
	vhDone()
}
