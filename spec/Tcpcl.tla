------------------------------ MODULE Tcpcl ------------------------------
(* TCPCLv4 bundle transfers (property C11, negotiation clause of C04).                        *)
(* One action per step of the implementation's four parties:                                  *)
(*   SenderNext  - the sending goroutine of TransferManager.Send takes the next segment        *)
(*   PeerRecv    - the peer's handler consumes one XFER_SEGMENT (buffers, acks, hands up)      *)
(*   MainAck     - Send's main loop consumes one XFER_ACK / XFER_REFUSE                        *)
(*   MainLen     - Send's main loop learns the total length from the finished sender           *)
(*   Timeout     - Send's 10 s acknowledgement timer                                           *)
(* Several transfers (ids T) run concurrently over one FIFO in each direction.                 *)
EXTENDS Integers, Sequences, FiniteSets, TLC

CONSTANT Cfgs     \* set of configurations explored: [m, len, fault, at] with len/fault/at sequences indexed by transfer id

VARIABLES cfg,                          \* the configuration of this behaviour (never changes):
                                        \*   m: negotiated segment size >= 1; len[t]: encoded bundle length;
                                        \*   fault[t] in {"none","dropacks","refuse","close"}: behaviour of the peer for transfer t;
                                        \*   at[t]: number of segments of t the peer handles normally before the fault
          sSent, sSegs, sDone, sStop,   \* sender goroutine: bytes taken, segments emitted, finished, aborted
          wire,                         \* FIFO of segments towards the peer: [id, len, start, end]
          rLen, rEnded, rDelivered, rSegs, closed,   \* peer: buffered length, END seen, bundles handed up, segments seen
          acks,                         \* FIFO towards the sender: [id, kind: "ack"|"refuse", n]
          mAck, mLenKnown, ret          \* Send main loop: last acknowledged length, total known, result "none"|"ok"|"err"

vars == <<cfg, sSent, sSegs, sDone, sStop, wire, rLen, rEnded, rDelivered, rSegs, closed, acks, mAck, mLenKnown, ret>>

T == DOMAIN cfg.len
M == cfg.m
BLen == cfg.len
Fault == cfg.fault
FaultAt == cfg.at

Min(a, b) == IF a < b THEN a ELSE b

InitFor(c) ==
  /\ cfg = c
  /\ sSent = [t \in T |-> 0] /\ sSegs = [t \in T |-> 0] /\ sDone = [t \in T |-> FALSE] /\ sStop = [t \in T |-> FALSE]
  /\ wire = <<>> /\ acks = <<>> /\ closed = FALSE
  /\ rLen = [t \in T |-> 0] /\ rEnded = [t \in T |-> FALSE] /\ rDelivered = [t \in T |-> 0] /\ rSegs = [t \in T |-> 0]
  /\ mAck = [t \in T |-> 0] /\ mLenKnown = [t \in T |-> FALSE] /\ ret = [t \in T |-> "none"]
Init == \E c \in Cfgs : InitFor(c)

(* the segment a correct sender emits next: at most M bytes, START on the first, END on the last *)
NextSeg(t) ==
  LET n == Min(M, BLen[t] - sSent[t])
  IN [id |-> t, len |-> n, start |-> sSegs[t] = 0, end |-> sSent[t] + n = BLen[t]]

SenderNext(t) ==
  /\ ~sDone[t] /\ ~sStop[t] /\ ret[t] = "none"
  /\ wire' = Append(wire, NextSeg(t))
  /\ sSent' = [sSent EXCEPT ![t] = @ + NextSeg(t).len]
  /\ sSegs' = [sSegs EXCEPT ![t] = @ + 1]
  /\ sDone' = [sDone EXCEPT ![t] = NextSeg(t).end]
  /\ UNCHANGED <<cfg, sStop, rLen, rEnded, rDelivered, rSegs, closed, acks, mAck, mLenKnown, ret>>

(* what the peer does with segment s; shared with the trace specification *)
PeerEffect(s) ==
  LET t == s.id
      faulty == Fault[t] # "none" /\ rSegs[t] >= FaultAt[t]
  IN /\ rSegs' = [rSegs EXCEPT ![t] = @ + 1]
     /\ IF closed \/ (faulty /\ Fault[t] = "close")
        THEN closed' = TRUE /\ UNCHANGED <<rLen, rEnded, rDelivered, acks>>
        ELSE IF faulty /\ Fault[t] = "refuse"
        THEN acks' = Append(acks, [id |-> t, kind |-> "refuse", n |-> 0]) /\ UNCHANGED <<rLen, rEnded, rDelivered, closed>>
        ELSE /\ rLen' = [rLen EXCEPT ![t] = @ + s.len]
             /\ rEnded' = [rEnded EXCEPT ![t] = s.end]
             /\ rDelivered' = [rDelivered EXCEPT ![t] = IF s.end THEN @ + 1 ELSE @]
             /\ acks' = IF faulty /\ Fault[t] = "dropacks" THEN acks ELSE Append(acks, [id |-> t, kind |-> "ack", n |-> rLen[t] + s.len])
             /\ UNCHANGED closed

PeerRecv ==
  /\ wire # <<>>
  /\ PeerEffect(Head(wire))
  /\ wire' = Tail(wire)
  /\ UNCHANGED <<cfg, sSent, sSegs, sDone, sStop, mAck, mLenKnown, ret>>

Decide(t, ackLen, known) == IF known /\ ackLen = sSent[t] THEN "ok" ELSE "none"

MainAck ==
  /\ acks # <<>>
  /\ LET a == Head(acks) t == a.id IN
     /\ acks' = Tail(acks)
     /\ IF ret[t] # "none" THEN UNCHANGED <<mAck, ret, sStop>>
        ELSE IF a.kind = "refuse"
        THEN ret' = [ret EXCEPT ![t] = "err"] /\ sStop' = [sStop EXCEPT ![t] = TRUE] /\ UNCHANGED mAck
        ELSE /\ mAck' = [mAck EXCEPT ![t] = a.n]
             /\ ret' = [ret EXCEPT ![t] = Decide(t, a.n, mLenKnown[t])]
             /\ UNCHANGED sStop
  /\ UNCHANGED <<cfg, sSent, sSegs, sDone, wire, rLen, rEnded, rDelivered, rSegs, closed, mLenKnown>>

MainLen(t) ==
  /\ sDone[t] /\ ~mLenKnown[t] /\ ret[t] = "none"
  /\ mLenKnown' = [mLenKnown EXCEPT ![t] = TRUE]
  /\ ret' = [ret EXCEPT ![t] = Decide(t, mAck[t], TRUE)]
  /\ UNCHANGED <<cfg, sSent, sSegs, sDone, sStop, wire, rLen, rEnded, rDelivered, rSegs, closed, acks, mAck>>

(* the timer can only win when nothing that would complete the transfer is still on its way *)
Timeout(t) ==
  /\ ret[t] = "none"
  /\ Fault[t] \in {"dropacks", "close"} \/ closed
  /\ \A i \in 1..Len(acks) : acks[i].id # t
  /\ (sDone[t] \/ sStop[t]) /\ (closed \/ \A i \in 1..Len(wire) : wire[i].id # t)
  /\ ret' = [ret EXCEPT ![t] = "err"] /\ sStop' = [sStop EXCEPT ![t] = TRUE]
  /\ UNCHANGED <<cfg, sSent, sSegs, sDone, wire, rLen, rEnded, rDelivered, rSegs, closed, acks, mAck, mLenKnown>>

Next == \/ \E t \in T : SenderNext(t) \/ MainLen(t) \/ Timeout(t)
        \/ PeerRecv \/ MainAck

Spec == Init /\ [][Next]_vars /\ WF_vars(Next)

-----------------------------------------------------------------------------
(* C11 *)
SegmentSize == \A i \in 1..Len(wire) : wire[i].len >= 1 /\ wire[i].len <= M
FlagsRight == \A i \in 1..Len(wire) : LET s == wire[i] IN
                 s.end => (\A j \in (i + 1)..Len(wire) : wire[j].id # s.id)
SuccessMeansDelivered == \A t \in T : ret[t] = "ok" => rEnded[t] /\ rLen[t] = BLen[t] /\ rDelivered[t] = 1
DeliveredOnce == \A t \in T : rDelivered[t] <= 1 /\ (rDelivered[t] = 1 => rLen[t] = BLen[t])
NoFaultNoError == \A t \in T : (Fault[t] = "none" /\ ~closed) => ret[t] # "err"
Terminates == <>(\A t \in T : ret[t] # "none")

(* the segment sequence a correct sender produces for a stream of L bytes and segment size m (pure function) *)
RECURSIVE SegsFrom(_, _, _)
SegsFrom(L, m, sent) ==
  IF sent = L THEN <<>>
  ELSE LET n == Min(m, L - sent)
       IN <<[len |-> n, start |-> sent = 0, end |-> sent + n = L]>> \o SegsFrom(L, m, sent + n)
=============================================================================
