"""Shared between C09 and C10: Frag.tla exhaustive check, interval replay, recording of real Fragment() results."""
import json, os
from vlib import *

FILES = ["common/vh.go", "bpv7/frag.go"]
CONSTS = " N = 1\n K = 0\n EmitMode = \"none\""


def frag_cfg(n, k, mode, props=True):
    t = "SPECIFICATION Spec\nCONSTANTS\n N = %d\n K = %d\n EmitMode = \"%s\"\nINVARIANTS AlgoMatchesDefinition Emit\n" % (n, k, mode)
    if props:
        t += "PROPERTIES Monotone\n"
    return t


def record_run(chk, tier):
    """Run the recorder on the real code; returns list of records."""
    recf = os.path.join(scratch("rec"), "frag-%s.ndjson" % chk.pid)
    st = run_harness(chk, "record Fragment()/ReassembleFragments()", "pkg/bpv7", FILES, "TestVerifFragRecord",
                     env={"VERIF_REC": recf, "VERIF_TIER": tier, "VERIF_PAR": 16}, timeout=1500)
    recs = read_ndjson(recf)
    if len(recs) != st.get("records"):
        raise InfraError("recorder wrote %d records, reported %s" % (len(recs), st.get("records")))
    return recs


def judge(chk, recs, want, keyprefix):
    """TLC judges the records of kind `want` ('frag' / 'reasm' / predicate)."""
    sel = [r for r in recs if want(r)]
    n, bad, results = check_records("FragCheck", CONSTS, sel, name="fragcheck-" + chk.pid)
    for r in results:
        chk.add_tlc("FragCheck records", r)
    for idx, problems in bad:
        r = sel[idx]
        for p in problems:
            feat = ""
            if r["t"] == "frag":
                feat = "/second-level" if r.get("isfrag") else ("/empty-payload" if r["plen"] == 0 else "")
            chk.violation("%s/%s%s" % (keyprefix, p, feat), "record judged by Frag.tla: %s" % json.dumps(r)[:600], r)
    return n, len(bad)
