"""C17 All auxiliary wire formats round-trip and stay aligned on a stream."""
import json, os
from vlib import *
from props.wirecommon import mc_module, now_u

COMMON = ["common/vh.go"]


def run(tier):
    chk = Check("C17", tier, "model_checking")
    chk.assumptions = ["WireAux.tla gives each format's value space at the boundaries (0, 1, width maximum; string/byte lengths 0,1,23,24,255,256,65535 "
                       "as run-length terms; all 256 values of every code field) and its encoding; TCPCLv4 and BBC layouts are taken from the "
                       "RFC / header definition and used as oracle, the CBOR-based project formats are compared diagnostically (format drift) and "
                       "the specification's encoding is decoded as an independent input",
                       "every decode is done from a stream that continues with other bytes (consumed length = encoded length), and random "
                       "concatenations of TCPCL / WebSocket messages are read back from one stream",
                       "URIs: Uri.tla's grammar (node names, demux, ipn numbers at 0, 1, 2^64-1, 2^64, leading zeros, near-misses) decides validity; "
                       "accepted URIs must print back to the same text"]
    chk.cov["rule"] = "one case per abstract value enumerated by TLC; distinct = distinct values"
    fams = ["tcpcl", "discovery", "wam", "bbc", "bundle_id", "status_report"]
    jobs = [(f, dict(module="WireAux", cfg_text='SPECIFICATION Spec\nCONSTANTS\n Fam = "%s"\nINVARIANTS Emit\n' % f, name="aux-" + f, deadlock=False, workers=2)) for f in fams]
    jobs.append(("uri", dict(module="MCUri", cfg_text='SPECIFICATION USpec\nCONSTANTS\n Family = "crc"\n NowU <- MCNow\nINVARIANTS UEmit\n', name="aux-uri", deadlock=False, workers=2,
                             extra_files={"MCUri.tla": "---- MODULE MCUri ----\nEXTENDS Uri\nMCNow == <<1>>\n====\n"})))
    res = tlc_parallel(jobs, par=7)
    cases = {}
    for f in fams + ["uri"]:
        r = need_ok(res[f], "WireAux " + f)
        if not r.traces:
            raise InfraError("family %s empty" % f)
        chk.add_tlc("family " + f, r)
        cases[f] = r.traces
    total = 0
    runs = [("tcpcl", "pkg/cla/tcpclv4/internal/msgs", ["msgs/c17.go"], "TestVerifC17Tcpcl", cases["tcpcl"]),
            ("discovery", "pkg/discovery", ["discovery/c17.go"], "TestVerifC17Discovery", cases["discovery"]),
            ("bbc", "pkg/cla/bbc", ["bbc/c17.go"], "TestVerifC17Bbc", cases["bbc"]),
            ("wam", "pkg/agent", ["agent/c17.go"], "TestVerifC17Wam", cases["wam"]),
            ("bpv7", "pkg/bpv7", ["bpv7/frag.go", "bpv7/wire.go", "bpv7/aux.go"], "TestVerifC17Bpv7", cases["bundle_id"] + cases["status_report"] + cases["uri"])]
    for label, pkg, files, test, cs in runs:
        inp = write_input("c17-%s.ndjson" % label, cs)
        st = run_harness(chk, label, pkg, COMMON + files, test, env={"VERIF_IN": inp}, timeout=900, crash_key="aux/%s/crash" % label)
        total += len(cs)
    chk.cov["traces_validated_against_impl"] = total
    chk.cov["evaluations"] = total
    chk.cov["distinct_nontrivial"] = total
    chk.cov["exhaustive"] = True
    return chk.finish()
