#!/usr/bin/env python3
"""Write the task text for a sub-agent that seeds a breaking change: tools/mktask.py <Cxx> <worktree> [round]
The agent gets the property text only (nothing from /verif) and, for a second round, one sentence on what the first change was."""
import json, os, sys
ROOT = os.path.dirname(os.path.dirname(os.path.abspath(__file__)))
props = {json.loads(l)["id"]: json.loads(l) for l in open(os.path.join(ROOT, "properties.jsonl"))}
pid, wt = sys.argv[1], sys.argv[2]
rnd = int(sys.argv[3]) if len(sys.argv) > 3 else 1
p = props[pid]
prev = ""
if rnd > 1:
    metas = []
    for k in range(1, rnd):
        f = os.path.join(ROOT, "seeded", "S-%s-%d" % (pid, k), "meta.json")
        if os.path.exists(f):
            metas.append(json.load(open(f))["change"])
    if metas:
        prev = ("\n\nAn earlier round already produced this change for the same property: " + " ; ".join(metas) +
                ". Yours must be DIFFERENT: another function or mechanism, another clause of the property, another kind of input or history needed to manifest.\n")
print(f"""You are helping to evaluate a verification framework by producing a realistic, subtle bug ("seeded change") in a Go project. Work ONLY inside the git worktree {wt} (a checkout of the project dtn7-go, a delay-tolerant networking daemon). Do not read or write anything under /verif or /repo - your work must be independent of them. Keep ALL temporary files inside {wt} (other jobs like yours run in sibling directories; do not use shared paths such as /tmp/*.bak). Never use pkill/killall with patterns that could match processes outside your worktree.

Environment: no network. Before every go command run: export GOFLAGS=-mod=mod GOPROXY=off GOSUMDB=off GOTOOLCHAIN=local . The project builds with `go build ./...` and its tests run with `go test -vet=off -count=1 ./...` (about 2 minutes). The machine is shared and loaded: timing-sensitive tests of packages you did not touch (TestWebAgentConnector, TestImplNetwork, TestMTCPServerClient, TestKeepaliveTicker, TestRestAgentCycle, TestSessEstablishedStage*) may fail spuriously; re-run such a package alone before concluding anything, and only worry about packages that depend on what you changed.

The property to break (read it carefully):

{pid} - {p['title']}

Statement: {p['statement']}

Quantified over: {p['quantifier']['text']}

Code the property is anchored in: {', '.join(p['anchors']['files'])}
{prev}
Your task:
1. Read the relevant code in the worktree and design ONE small change to the production code (not to tests, not to files named verif_on.go / verif_off.go, and do not remove calls to functions named verifPoint/verifTicker) that makes the project violate the property above, while it still compiles and the existing test suite still passes. The change should look like a plausible mistake or "optimisation" a developer could make (a few lines), NOT something ordinary use would expose at once: it must need something specific to manifest - a particular input shape, boundary value, configuration, interleaving, fault, or history of events.
2. Write a demonstration: a Go test file (put it in the appropriate package directory of the worktree, name it zz_seed_demo_test.go, test function names starting with TestSeedDemo) that FAILS with your change and PASSES without it. Keep it deterministic and fast (no long sleeps; logging can be silenced with logrus.SetOutput(io.Discard)).
3. Verify yourself: (a) with the change: `go build ./...` ok, the existing suite passes (see the note on flaky tests), the demo test fails; (b) without the change (save the diff inside the worktree, `git checkout` the production file, run the demo, re-apply with `git apply`): the demo test passes.
4. Leave in the worktree: the production change applied in the working tree (uncommitted), the demo test file, a file {wt}/patch.diff containing ONLY the production-code diff (git diff of the non-test files), and a file {wt}/NOTES.md saying: what the change is, why it breaks the property, exactly what is needed for it to manifest, the package directory of the demo test, the commands you ran and their outcomes.

Report back a short summary (the diff, what it needs to manifest, and whether all verifications succeeded). If you cannot find a change that passes the existing suite, say so and describe what you tried.""")
