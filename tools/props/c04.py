"""C04 Bytes from the network or clients can never crash, hang or balloon the node."""
import json, os
from vlib import *
from props.wirecommon import now_u

COMMON = ["common/vh.go"]


def run(tier):
    chk = Check("C04", tier, "exploration")
    chk.assumptions = ["memory safety and robustness of decoders are not something a TLA+ model decides (DESIGN.md section 7): this is model-generated "
                       "exploration. Robust.tla walks each specification-level encoding (bundles with all block types, status reports, discovery "
                       "announcements, WebSocket-agent messages), finds every position where a decoder reads a CBOR length or count (also inside "
                       "byte strings wrapping CBOR) and substitutes 0, 1, 23, 24, 2^16, 2^31-1, 2^31, 2^32-1, 2^62, 2^63, 2^64-1; the harness adds "
                       "every truncation and cuts right behind each substituted head, and handles the fixed-offset TCPCL length fields, MTCP frame "
                       "heads, xz streams of BBC transmissions, endpoint strings and REST bodies",
                       "oracle per input: the decoder returns (value or error) within 5 s, does not panic, and allocates at most 4 MiB + 256 x len(input) "
                       "(runtime.MemStats.TotalAlloc, decoders run one at a time)",
                       "not covered: arbitrary byte strings up to 64 KiB, coverage-guided mutation",
                       "the session-negotiation clause (peer-declared segment MRU) is driven on OutgoingTransfer.NextSegment and TransferManager.Send"]
    chk.cov["rule"] = "inputs generated as described; distinct_nontrivial = inputs that are not a base encoding"
    small = tier == "quick"
    mc = {"MCRobust.tla": "---- MODULE MCRobust ----\nEXTENDS Robust\nMCNow == <<%s>>\n====\n" % ", ".join(map(str, now_u()))}
    fams = [("bundle-small" if small else "bundle"), "admin", "announcements", "wam"]
    jobs = [(f, dict(module="MCRobust", cfg_text='SPECIFICATION RSpec\nCONSTANTS\n Fam = "%s"\n Family = "crc"\n NowU <- MCNow\nINVARIANTS REmit\n' % f,
                     name="robust-" + f, extra_files=mc, deadlock=False, workers=4, timeout=1500)) for f in fams]
    jobs.append(("tcpcl", dict(module="WireAux", cfg_text='SPECIFICATION Spec\nCONSTANTS\n Fam = "tcpcl"\nINVARIANTS Emit\n', name="robust-tcpcl", deadlock=False, workers=2)))
    res = tlc_parallel(jobs, par=5)
    sets = {}
    for f in fams + ["tcpcl"]:
        r = need_ok(res[f], "Robust " + f)
        chk.add_tlc("family " + f, r)
        sets[f] = r.traces
        if not r.traces:
            raise InfraError("family %s empty" % f)
    import random
    rng = random.Random(seed())
    def pick(xs, k):
        xs = list(xs)
        if small and len(xs) > k:
            rng.shuffle(xs)
            xs = xs[:k]
        return xs
    total = 0
    plans = [("bpv7 decoders", "pkg/bpv7", ["bpv7/frag.go", "bpv7/wire.go", "bpv7/robust.go"], "TestVerifC04Bpv7", pick(sets[fams[0]], 40) + pick(sets["admin"], 60)),
             ("tcpcl messages", "pkg/cla/tcpclv4/internal/msgs", ["msgs/c17.go", "msgs/robust.go"], "TestVerifC04Tcpcl", [c for c in sets["tcpcl"] if c.get("valid") and c.get("tail") == 0][::(7 if small else 1)]),
             ("discovery", "pkg/discovery", ["discovery/robust.go"], "TestVerifC04Discovery", pick(sets["announcements"], 80)),
             ("agents", "pkg/agent", ["agent/robust.go"], "TestVerifC04Agent", sets["wam"]),
             ("bbc", "pkg/cla/bbc", ["bbc/c12.go", "bbc/robust.go"], "TestVerifC04Bbc", []),
             ("mtcp", "pkg/cla/mtcp", ["mtcp/c12.go", "mtcp/robust.go"], "TestVerifC04Mtcp", []),
             ("negotiation", "pkg/cla/tcpclv4/internal/utils", ["tcpcl/c11.go", "tcpcl/robust.go"], "TestVerifC04Negotiation", [])]
    for label, pkg, files, test, cs in plans:
        inp = write_input("c04-%s.ndjson" % label.split()[0], cs)
        st = run_harness(chk, label, pkg, COMMON + files, test, env={"VERIF_IN": inp}, timeout=1800, crash_key="robust/%s/crash" % label.split()[0], max_rounds=3)
        total += st.get("inputs", 0)
    chk.cov["evaluations"] = total
    chk.cov["distinct_nontrivial"] = total
    chk.cov["traces_validated_against_impl"] = total
    return chk.finish()
