package bpv7

// C04 (bpv7 decoders): model-generated length/count mutants and truncations, hostile endpoint strings and build maps.

import (
	"bytes"
	"encoding/json"
	"fmt"
	"os"
	"sort"
	"strings"
	"testing"
)

func TestVerifC04Bpv7(t *testing.T) {
	vwRegister()
	n, nbase := 0, 0
	classes := map[string]int{}
	if err := vhLines(os.Getenv("VERIF_IN"), func(raw []byte) {
		var ms vhMutantSet
		if err := json.Unmarshal(raw, &ms); err != nil {
			t.Fatal(err)
		}
		nbase++
		ins, notes := ms.inputs()
		for i, in := range ins {
			in := in
			var p string
			switch ms.Kind {
			case "bundle":
				p = vhGuard(len(in), func() {
					if b, err := ParseBundle(bytes.NewReader(in)); err == nil && b.IsAdministrativeRecord() {
						_, _ = b.AdministrativeRecord()
					}
				})
			case "admin":
				p = vhGuard(len(in), func() { _, _ = NewAdministrativeRecordFromCbor(in) })
			default:
				continue
			}
			n++
			if p != "" {
				classes[vhClass(p)]++
				vhViol("robust/"+ms.Kind+"/"+vhClass(p), fmt.Sprintf("%s decoder, %s: %s", ms.Kind, notes[i], p), vhRec{"kind": ms.Kind, "input": fmt.Sprintf("%x", in), "note": notes[i]})
			}
		}
	}); err != nil {
		t.Fatal(err)
	}
	// endpoint ID strings
	eids := []string{"", ":", "dtn:", "dtn://", "dtn:///", "dtn://" + strings.Repeat("a", 70000) + "/", "ipn:" + strings.Repeat("9", 70000) + ".1", "ipn:1." + strings.Repeat("9", 30),
		strings.Repeat("x", 65536), "dtn://a/" + strings.Repeat("/", 65000), "ipn:.", "ipn:1.", "\x00\xff", "dtn:none\n", strings.Repeat("dtn:", 1000)}
	for _, s := range eids {
		s := s
		n++
		if p := vhGuard(len(s), func() { _, _ = NewEndpointID(s) }); p != "" {
			vhViol("robust/endpoint-string/"+vhClass(p), fmt.Sprintf("NewEndpointID on a %d byte string: %s", len(s), p), vhRec{"prefix": s[:vaMin(len(s), 40)], "len": len(s)})
		}
	}
	// REST build requests: JSON maps as a client may send them
	jsons := []string{`{}`, `{"destination":1}`, `{"destination":null,"source":[]}`, `{"lifetime":"` + strings.Repeat("9", 400) + `h"}`, `{"lifetime":-1}`, `{"lifetime":1e400}`,
		`{"payload_block":{"a":1}}`, `{"payload_block":[[[[]]]]}`, `{"hop_count_block":99999999999}`, `{"hop_count_block":"x"}`, `{"bundle_age_block":"` + strings.Repeat("1", 100) + `"}`,
		`{"previous_node_block":123}`, `{"creation_timestamp_time":"now"}`, `{"destination":"dtn://d/","source":"dtn://s/","creation_timestamp_now":1,"lifetime":"1h","payload_block":"` + strings.Repeat("A", 65536) + `"}`,
		`{"destination":"dtn://d/","source":"dtn://s/","creation_timestamp_epoch":true,"lifetime":"1h","payload_block":"x","bundle_age_block":1.5}`,
		`{"canonical":1,"bundle_ctrl_flags":["x"]}`, `{"unknown_method":true}`}
	// systematically: a complete request with every key left out in turn (and in pairs), and every key's value replaced by values
	// of every JSON type
	full := map[string]string{"destination": `"dtn://d/"`, "source": `"dtn://s/"`, "report_to": `"dtn://r/"`, "creation_timestamp_now": `1`,
		"lifetime": `"1h"`, "bundle_ctrl_flags": `["MUST_NOT_BE_FRAGMENTED"]`, "bundle_age_block": `5`, "hop_count_block": `64`,
		"previous_node_block": `"dtn://p/"`, "payload_block": `"hello"`}
	var keys []string
	for k := range full {
		keys = append(keys, k)
	}
	sort.Strings(keys)
	render := func(skip1, skip2, repl, val string) string {
		var parts []string
		for _, k := range keys {
			if k == skip1 || k == skip2 {
				continue
			}
			v := full[k]
			if k == repl {
				v = val
			}
			parts = append(parts, fmt.Sprintf("%q:%s", k, v))
		}
		return "{" + strings.Join(parts, ",") + "}"
	}
	jsons = append(jsons, render("", "", "", ""))
	for i, k1 := range keys {
		jsons = append(jsons, render(k1, "", "", ""))
		for _, k2 := range keys[i+1:] {
			jsons = append(jsons, render(k1, k2, "", ""))
		}
		for _, junk := range []string{`null`, `true`, `0`, `-1`, `1.5`, `1e300`, `18446744073709551616`, `""`, `"x"`, `[]`, `[null]`, `{}`, `{"a":null}`, `[[1,2],[3]]`} {
			jsons = append(jsons, render("", "", k1, junk))
		}
	}
	jsons = append(jsons, `{"destination":"dtn://d/","source":"dtn://s/","creation_timestamp_now":1,"lifetime":"24h"}`)
	for _, js := range jsons {
		js := js
		n++
		p := vhGuard(len(js), func() {
			var m map[string]interface{}
			if err := json.Unmarshal([]byte(js), &m); err == nil {
				_, _ = BuildFromMap(m)
			}
		})
		if p != "" {
			vhViol("robust/build-request/"+vhClass(p), fmt.Sprintf("BuildFromMap on %s: %s", js[:vaMin(len(js), 80)], p), vhRec{"json": js[:vaMin(len(js), 300)]})
		}
	}
	vhStat("inputs", n)
	vhStat("base_encodings", nbase)
	vhDone()
}

func vaMin(a, b int) int {
	if a < b {
		return a
	}
	return b
}
