package mtcp

import (
	"bytes"
	"fmt"
	"io"
	"net"
	"testing"
	"time"

	log "github.com/sirupsen/logrus"

	"github.com/dtn7/cboring"

	"github.com/dtn7/dtn7-go/pkg/bpv7"
	"github.com/dtn7/dtn7-go/pkg/cla"
)

// C04 (MTCP frames): the server's connection handler fed with hostile frame heads and bodies over an in-memory pipe.
func TestVerifC04Mtcp(t *testing.T) {
	log.SetOutput(io.Discard)
	n := 0
	serv := NewMTCPServer("127.0.0.1:0", bpv7.MustNewEndpointID("dtn://server/"), true)
	go func() {
		for range serv.reportChan {
		}
	}()
	_ = cla.ReceivedBundle
	good := vmSer(vmBundle("robust", 20))
	bounds := []uint64{0, 1, 23, 24, 1 << 16, 1<<31 - 1, 1 << 31, 1<<32 - 1, 1 << 62, 1 << 63, 1<<64 - 1}
	var inputs [][]byte
	var notes []string
	for _, v := range bounds {
		var h bytes.Buffer
		_ = cboring.WriteByteStringLen(v, &h)
		inputs = append(inputs, append([]byte{}, h.Bytes()...))
		notes = append(notes, fmt.Sprintf("frame length %d, nothing behind", v))
		inputs = append(inputs, append(append([]byte{}, h.Bytes()...), good[:len(good)/2]...))
		notes = append(notes, fmt.Sprintf("frame length %d, half a bundle behind", v))
		inputs = append(inputs, append(append([]byte{}, h.Bytes()...), good...))
		notes = append(notes, fmt.Sprintf("frame length %d, a whole bundle behind", v))
	}
	for b := 0; b < 256; b++ {
		inputs = append(inputs, []byte{byte(b)}, append([]byte{byte(b)}, bytes.Repeat([]byte{0xff}, 16)...))
		notes = append(notes, fmt.Sprintf("single byte %d", b), fmt.Sprintf("byte %d then 0xff", b))
	}
	for i, in := range inputs {
		in := in
		n++
		p := vhGuard(len(in), func() {
			c1, c2 := net.Pipe()
			go func() {
				_, _ = c1.Write(in)
				_ = c1.Close()
			}()
			done := make(chan struct{})
			go func() { serv.handleSender(c2); close(done) }()
			select {
			case <-done:
			case <-time.After(4 * time.Second):
				panic("connection handler does not return after the peer closed the connection")
			}
		})
		if p != "" {
			vhViol("robust/mtcp/"+vhClass(p), fmt.Sprintf("MTCP server, %s: %s", notes[i], p), vhRec{"input": fmt.Sprintf("%x", in), "note": notes[i]})
		}
	}
	vhStat("inputs", n)
	vhDone()
}
