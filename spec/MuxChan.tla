------------------------------ MODULE MuxChan ------------------------------
(* Channel-level model of local delivery: Core handler -> AgentManager.Deliver -> MuxAgent.handle ->      *)
(* child agents; PingAgent -> MuxAgent.handleChild -> AgentManager.handler -> Core.SendBundle -> Deliver.   *)
(* All channels are unbuffered (rendezvous), as in the code. Purpose: can the goroutines wait for each      *)
(* other in a cycle when a pong is addressed to a local endpoint? (growth item, beyond the listed           *)
(* properties; TLC's deadlock check decides it for the modelled configuration)                              *)
EXTENDS Integers, Sequences, FiniteSets, TLC

CONSTANTS Requests   \* sequence of report-to choices of the ping requests arriving from outside: "app" | "ping" | "remote"

Procs == {"core", "mux", "ping", "app", "hc", "am"}
VARIABLES pc,      \* [Procs -> control state]
          msg,     \* [Procs -> message in hand (or "none")]
          nextReq, \* index of the next external request
          todo,    \* mux: children still to be served for the message in hand
          pongs    \* number of pongs produced (bounded by MaxPongs to keep the ping-to-ping echo finite)
vars == <<pc, msg, nextReq, todo, pongs>>
MaxPongs == 4
None == [kind |-> "none", dst |-> "none"]

Init == /\ pc = [p \in Procs |-> "idle"] /\ msg = [p \in Procs |-> None] /\ nextReq = 1 /\ todo = <<>> /\ pongs = 0

Children(m) == IF m.dst = "ping" THEN <<"ping">> ELSE IF m.dst = "app" THEN <<"app">> ELSE <<>>

(* rendezvous: the core handler (Deliver) hands a request to the mux *)
CoreDeliver ==
  /\ pc["core"] = "idle" /\ nextReq <= Len(Requests) /\ pc["mux"] = "idle"
  /\ msg' = [msg EXCEPT !["mux"] = [kind |-> "req", dst |-> "ping", rpt |-> Requests[nextReq]]]
  /\ todo' = <<"ping">>
  /\ pc' = [pc EXCEPT !["mux"] = "serving"]
  /\ nextReq' = nextReq + 1 /\ UNCHANGED pongs

(* rendezvous: mux hands the message to the next child whose handler is idle *)
MuxToChild ==
  /\ pc["mux"] = "serving" /\ todo # <<>>
  /\ LET c == Head(todo) IN
     /\ pc[c] = "idle"
     /\ msg' = [msg EXCEPT ![c] = msg["mux"]]
     /\ pc' = [pc EXCEPT ![c] = "got", !["mux"] = IF Tail(todo) = <<>> THEN "idle" ELSE "serving"]
     /\ todo' = Tail(todo)
  /\ UNCHANGED <<nextReq, pongs>>
MuxNoChild == /\ pc["mux"] = "serving" /\ todo = <<>> /\ pc' = [pc EXCEPT !["mux"] = "idle"] /\ UNCHANGED <<msg, nextReq, todo, pongs>>

(* ping agent: every bundle is answered with a pong to its report-to (pongs report to the ping endpoint itself) *)
PingAck ==
  /\ pc["ping"] = "got"
  /\ IF pongs < MaxPongs
     THEN /\ msg' = [msg EXCEPT !["ping"] = [kind |-> "pong", dst |-> (IF msg["ping"].kind = "req" THEN msg["ping"].rpt ELSE "ping"), rpt |-> "ping"]]
          /\ pc' = [pc EXCEPT !["ping"] = "sending"] /\ pongs' = pongs + 1
     ELSE /\ pc' = [pc EXCEPT !["ping"] = "idle"] /\ UNCHANGED <<msg, pongs>>
  /\ UNCHANGED <<nextReq, todo>>
(* rendezvous ping.sender -> handleChild *)
PingToHc ==
  /\ pc["ping"] = "sending" /\ pc["hc"] = "idle"
  /\ msg' = [msg EXCEPT !["hc"] = msg["ping"]]
  /\ pc' = [pc EXCEPT !["ping"] = "idle", !["hc"] = "forwarding"]
  /\ UNCHANGED <<nextReq, todo, pongs>>
(* rendezvous handleChild -> mux.sender -> AgentManager.handler *)
HcToAm ==
  /\ pc["hc"] = "forwarding" /\ pc["am"] = "idle"
  /\ msg' = [msg EXCEPT !["am"] = msg["hc"]]
  /\ pc' = [pc EXCEPT !["hc"] = "idle", !["am"] = "sendbundle"]
  /\ UNCHANGED <<nextReq, todo, pongs>>
(* AgentManager.handler runs Core.SendBundle: remote destinations are forwarded (nothing local), local ones delivered *)
AmRemote ==
  /\ pc["am"] = "sendbundle" /\ msg["am"].dst = "remote"
  /\ pc' = [pc EXCEPT !["am"] = "idle"] /\ UNCHANGED <<msg, nextReq, todo, pongs>>
AmDeliver ==
  /\ pc["am"] = "sendbundle" /\ msg["am"].dst # "remote" /\ pc["mux"] = "idle"
  /\ msg' = [msg EXCEPT !["mux"] = msg["am"]]
  /\ todo' = Children(msg["am"])
  /\ pc' = [pc EXCEPT !["am"] = "idle", !["mux"] = "serving"]
  /\ UNCHANGED <<nextReq, pongs>>
AppConsume == /\ pc["app"] = "got" /\ pc' = [pc EXCEPT !["app"] = "idle"] /\ UNCHANGED <<msg, nextReq, todo, pongs>>

AllIdle == \A p \in Procs : pc[p] = "idle"
Done == AllIdle /\ nextReq > Len(Requests) /\ UNCHANGED vars

Next == CoreDeliver \/ MuxToChild \/ MuxNoChild \/ PingAck \/ PingToHc \/ HcToAm \/ AmRemote \/ AmDeliver \/ AppConsume \/ Done
Spec == Init /\ [][Next]_vars /\ WF_vars(Next)
Quiesces == <>(AllIdle /\ nextReq > Len(Requests))
=============================================================================
