package mtcp

// C12 (MTCP): replay of Mtcp.tla writer programs against a real MTCPServer over loopback; MTCPClient.Send on a
// connection that fails at a chosen write, recorded for Mtcp!ClientProblems.

import (
	"bytes"
	"encoding/json"
	"errors"
	"fmt"
	"io"
	"net"
	"os"
	"sync"
	"testing"
	"time"

	log "github.com/sirupsen/logrus"

	"github.com/dtn7/cboring"

	"github.com/dtn7/dtn7-go/pkg/bpv7"
	"github.com/dtn7/dtn7-go/pkg/cla"
)

func vmBundle(tag string, payload int) bpv7.Bundle {
	b, err := bpv7.Builder().CRC(bpv7.CRC32).Source("dtn://" + tag + "/").Destination("dtn://dst/").CreationTimestampNow().
		Lifetime("30m").PayloadBlock(bytes.Repeat([]byte{7}, payload)).Build()
	if err != nil {
		panic(err)
	}
	return b
}

func vmSer(b bpv7.Bundle) []byte {
	var buf bytes.Buffer
	_ = b.MarshalCbor(&buf)
	return buf.Bytes()
}

func vmFrame(body []byte) (head, all []byte) {
	var buf bytes.Buffer
	_ = cboring.WriteByteStringLen(uint64(len(body)), &buf)
	head = append([]byte{}, buf.Bytes()...)
	return head, append(head, body...)
}

var vmSent sync.Map // tag -> serialisation written by the raw writer

func vmMake(idx, b int) []byte {
	tag := fmt.Sprintf("h%db%d", idx, b)
	ser := vmSer(vmBundle(tag, 10+b*30))
	vmSent.Store(tag, ser)
	return ser
}

type vmOp struct {
	Op    string `json:"op"`
	B     int    `json:"b"`
	Where string `json:"where"`
}

type vmProg struct {
	Ops []vmOp `json:"ops"`
	Exp []int  `json:"exp"`
}

func TestVerifC12MtcpReplay(t *testing.T) {
	log.SetOutput(io.Discard)
	var items [][]byte
	if err := vhLines(os.Getenv("VERIF_IN"), func(b []byte) { items = append(items, b) }); err != nil {
		t.Fatal(err)
	}
	l, err := net.Listen("tcp", "127.0.0.1:0")
	if err != nil {
		t.Fatal(err)
	}
	addr := l.Addr().String()
	_ = l.Close()
	serv := NewMTCPServer(addr, bpv7.MustNewEndpointID("dtn://server/"), true)
	if err, _ := serv.Start(); err != nil {
		t.Fatal(err)
	}
	var dmu sync.Mutex
	got := map[string][]string{} // history tag -> delivered source ids in order
	stopDrain := make(chan struct{})
	go func() {
		for {
			select {
			case cs, ok := <-serv.Channel():
				if !ok {
					return
				}
				if cs.MessageType == cla.ReceivedBundle {
					b := cs.Message.(cla.ConvergenceReceivedBundle).Bundle
					src := b.PrimaryBlock.SourceNode.String()
					var h, n int
					fmt.Sscanf(src, "dtn://h%db%d/", &h, &n)
					dmu.Lock()
					k := fmt.Sprint(h)
					orig, _ := vmSent.Load(fmt.Sprintf("h%db%d", h, n))
					ok := orig != nil && bytes.Equal(vmSer(*b), orig.([]byte))
					if ok {
						got[k] = append(got[k], fmt.Sprint(n))
					} else {
						got[k] = append(got[k], "corrupt")
					}
					dmu.Unlock()
				}
			case <-stopDrain:
				return
			}
		}
	}()
	var mu sync.Mutex
	conforming, bundlesSent := 0, 0
	vhParallel(vhEnvInt("VERIF_PAR", 8), items, func(idx int, item []byte) {
		var p vmProg
		if err := json.Unmarshal(item, &p); err != nil {
			vhEmit(vhRec{"k": "infra", "v": err.Error()})
			return
		}
		conn, err := net.Dial("tcp", addr)
		if err != nil {
			vhEmit(vhRec{"k": "infra", "v": "dial: " + err.Error()})
			return
		}
		tc := conn.(*net.TCPConn)
		nb := 0
		for _, op := range p.Ops {
			switch op.Op {
			case "ka":
				_, _ = tc.Write([]byte{0x40})
			case "bundle":
				_, all := vmFrame(vmMake(idx, op.B))
				_, _ = tc.Write(all)
				nb++
			case "cut":
				head, all := vmFrame(vmMake(idx, op.B))
				if op.Where == "head" {
					_, _ = tc.Write(head[:len(head)-1])
				} else {
					_, _ = tc.Write(all[:len(head)+(len(all)-len(head))/2])
				}
			case "close":
			}
		}
		_ = tc.CloseWrite()
		// the server closes its side when its handler returns: everything it will ever hand up has been pushed then
		_ = tc.SetReadDeadline(time.Now().Add(10 * time.Second))
		_, rerr := io.Copy(io.Discard, tc)
		_ = tc.Close()
		if rerr != nil {
			vhViol("mtcp/server-hang", fmt.Sprintf("server did not finish the connection: %v", rerr), vhRec{"program": p})
			return
		}
		want := []string{}
		for _, b := range p.Exp {
			want = append(want, fmt.Sprint(b))
		}
		var have []string
		for w := 0; w < 200; w++ { // the drain goroutine appends right after receiving: wait for the expected count at most 200 ms
			dmu.Lock()
			have = append([]string{}, got[fmt.Sprint(idx)]...)
			dmu.Unlock()
			if len(have) >= len(want) {
				break
			}
			time.Sleep(time.Millisecond)
		}
		time.Sleep(2 * time.Millisecond)
		dmu.Lock()
		have = append([]string{}, got[fmt.Sprint(idx)]...)
		dmu.Unlock()
		if fmt.Sprint(have) != fmt.Sprint(want) {
			vhViol("mtcp/server-deliveries", fmt.Sprintf("writer program %v: expected bundles %v, server handed up %v", p.Ops, want, have),
				vhRec{"program": p, "observed": have})
			return
		}
		mu.Lock()
		conforming++
		bundlesSent += nb
		if idx%2000 == 7 {
			vhSample(vhRec{"ops": p.Ops, "delivered": have})
		}
		mu.Unlock()
	})
	close(stopDrain)
	vhStat("programs", len(items))
	vhStat("programs_conforming", conforming)
	vhStat("bundles_written", bundlesSent)
	vhDone()
}

// vmConn: in-memory connection whose writes fail from write number failAt on (1-based; 0 = never).
type vmConn struct {
	mu     sync.Mutex
	writes int
	failAt int
	failed bool
	sink   bytes.Buffer
	// the peer has closed the connection: as with TCP, the first write afterwards is still taken (the reset comes back later),
	// every further one fails
	cut         bool
	cutAccepted bool
}

func (c *vmConn) Write(b []byte) (int, error) {
	c.mu.Lock()
	defer c.mu.Unlock()
	c.writes++
	if c.cut {
		if !c.cutAccepted {
			c.cutAccepted = true
			return len(b), nil
		}
		c.failed = true
		return 0, errors.New("connection reset by peer (scripted)")
	}
	if c.failAt > 0 && c.writes >= c.failAt {
		c.failed = true
		return 0, errors.New("broken pipe (scripted)")
	}
	return c.sink.Write(b)
}
func (c *vmConn) Read([]byte) (int, error)         { select {} }
func (c *vmConn) Close() error                     { return nil }
func (c *vmConn) LocalAddr() net.Addr              { return &net.TCPAddr{} }
func (c *vmConn) RemoteAddr() net.Addr             { return &net.TCPAddr{} }
func (c *vmConn) SetDeadline(time.Time) error      { return nil }
func (c *vmConn) SetReadDeadline(time.Time) error  { return nil }
func (c *vmConn) SetWriteDeadline(time.Time) error { return nil }

func TestVerifC12MtcpClient(t *testing.T) {
	log.SetOutput(io.Discard)
	f, err := os.Create(os.Getenv("VERIF_REC"))
	if err != nil {
		t.Fatal(err)
	}
	defer f.Close()
	nrec := 0
	for _, payload := range []int{0, 100, 5000, 70000} {
		for failAt := 0; failAt <= 12; failAt++ {
			fc := &vmConn{failAt: failAt}
			cl := &MTCPClient{conn: fc, peer: bpv7.MustNewEndpointID("dtn://peer/"), reportChan: make(chan cla.ConvergenceStatus), address: "fake"}
			type sr struct {
				Ok     bool `json:"ok"`
				Broken bool `json:"broken"`
				Gone   int  `json:"gone"`
			}
			var sends []sr
			for i := 0; i < 3; i++ {
				done := make(chan error, 1)
				go func() { done <- cl.Send(vmBundle(fmt.Sprintf("c%d", i), payload)) }()
				// the status channel is unbuffered, as in NewMTCPClient, and its reader (the cla.Manager) is busy elsewhere for a moment: the
				// report has to wait for it
				time.Sleep(15 * time.Millisecond)
				var err error
				gone := 0
			wait:
				for {
					select {
					case cs := <-cl.reportChan:
						if cs.MessageType == cla.PeerDisappeared {
							gone++
						}
					case err = <-done:
						break wait
					case <-time.After(10 * time.Second):
						vhViol("mtcp/client-hang", "Send does not return on a failing connection", vhRec{"payload": payload, "fail_at": failAt})
						vhDone()
						return
					}
				}
				fc.mu.Lock()
				broken := fc.failed
				fc.mu.Unlock()
				sends = append(sends, sr{Ok: err == nil, Broken: broken, Gone: gone})
			}
			// what reached the other side must be whole frames of the bundles sent successfully
			b, _ := json.Marshal(vhRec{"t": "client", "payload": payload, "fail_at": failAt, "sends": sends})
			f.Write(append(b, '\n'))
			nrec++
		}
		// the peer closes the connection after k successful sends (nothing is written in between): the very next send has to fail
		for cutAfter := 0; cutAfter <= 2; cutAfter++ {
			fc := &vmConn{}
			cl := &MTCPClient{conn: fc, peer: bpv7.MustNewEndpointID("dtn://peer/"), reportChan: make(chan cla.ConvergenceStatus), address: "fake"}
			type sr struct {
				Ok     bool `json:"ok"`
				Broken bool `json:"broken"`
				Gone   int  `json:"gone"`
			}
			var sends []sr
			for i := 0; i <= cutAfter; i++ {
				if i == cutAfter {
					fc.mu.Lock()
					fc.cut = true
					fc.mu.Unlock()
				}
				done := make(chan error, 1)
				go func() { done <- cl.Send(vmBundle(fmt.Sprintf("k%d", i), payload)) }()
				// the status channel is unbuffered, as in NewMTCPClient, and its reader (the cla.Manager) is busy elsewhere for a moment: the
				// report has to wait2 for it
				time.Sleep(15 * time.Millisecond)
				var err error
				gone := 0
			wait2:
				for {
					select {
					case cs := <-cl.reportChan:
						if cs.MessageType == cla.PeerDisappeared {
							gone++
						}
					case err = <-done:
						break wait2
					case <-time.After(10 * time.Second):
						vhViol("mtcp/client-hang", "Send does not return on a connection the peer has closed", vhRec{"payload": payload, "cut_after": cutAfter})
						vhDone()
						return
					}
				}
				sends = append(sends, sr{Ok: err == nil, Broken: i == cutAfter, Gone: gone})
			}
			b, _ := json.Marshal(vhRec{"t": "client", "payload": payload, "fail_at": -1 - cutAfter, "sends": sends})
			f.Write(append(b, '\n'))
			nrec++
		}
	}
	vhStat("records", nrec)
	vhDone()
}
