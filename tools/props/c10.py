"""C10 Reassembly accepts any covering set of fragments and nothing else."""
from props.fragcommon import *


def run(tier):
    chk = Check("C10", tier, "model_checking")
    quick = tier == "quick"
    chk.assumptions = ["synthetic fragments are built by the harness from one original bundle (payload byte = f(index)) with the "
                       "public constructors; real fragments come from Bundle.Fragment with several limits and from fragmenting fragments",
                       "the store is asked the same question: fragments of one fragmentation (one of them fragmented again) are pushed one at a time in "
                       "several orders; IsComplete and Load after every push are judged by the same operator. Fragments of different fragmentations "
                       "that share an offset are not pushed into one store (the store identifies a part by offset and total length)"]
    chk.cov["rule"] = ("Frag.tla: all sequences of <=K intervals over a payload of N cells (every multiset incl. duplicates, overlaps, "
                       "containment, every order); each is replayed as real fragment bundles through IsBundleReassemblable/"
                       "ReassembleFragments after every arrival. Plus: results of reassembling subsets of real Fragment() output "
                       "are recorded and judged by Frag!ReasmRecProblems in TLC. distinct = distinct interval sequences + records.")
    plans = [(4, 3), (5, 3), (3, 4)] if quick else [(4, 4), (5, 4), (6, 3), (3, 5), (6, 4)]
    jobs = []
    for n, k in plans:
        jobs.append(("mc N=%d K=%d" % (n, k), dict(module="Frag", cfg_text=frag_cfg(n, k, "none"), name="fragmc-%d-%d" % (n, k), deadlock=False)))
        jobs.append(("gen N=%d K=%d" % (n, k), dict(module="Frag", cfg_text=frag_cfg(n, k, "final", props=False), name="fraggen-%d-%d" % (n, k), deadlock=False)))
    res = tlc_parallel(jobs)
    hs = []
    for n, k in plans:
        chk.add_tlc("exhaustive N=%d K=%d" % (n, k), need_ok(res["mc N=%d K=%d" % (n, k)], "Frag exhaustive"))
        g = need_ok(res["gen N=%d K=%d" % (n, k)], "Frag generator")
        chk.add_tlc("generator N=%d K=%d" % (n, k), g)
        hs += g.traces
    if not hs:
        raise InfraError("no behaviours generated")
    inp = write_input("c10.ndjson", hs)
    st = run_harness(chk, "replay interval sequences", "pkg/bpv7", FILES, "TestVerifC10Replay", env={"VERIF_IN": inp, "VERIF_PAR": 16})
    if st.get("histories") != len(hs):
        raise InfraError("replayer saw %s of %d" % (st.get("histories"), len(hs)))
    if st.get("steps_complete", 0) == 0:
        raise InfraError("vacuous: no covering set among the behaviours")
    recs = record_run(chk, tier)
    # the same question put to the store: fragments pushed one at a time, completeness test and Load after every push
    srecf = os.path.join(scratch("rec"), "c10-store.ndjson")
    st4 = run_harness(chk, "store: push fragments, IsComplete, Load", "pkg/storage", ["common/vh.go", "storage/c08.go", "storage/c10.go"], "TestVerifC10Store",
                      env={"VERIF_REC": srecf, "VERIF_ORDERS": 6 if quick else 40}, timeout=1200)
    srecs = read_ndjson(srecf)
    if len(srecs) != st4.get("records") or len(srecs) < 100:
        raise InfraError("store recorder incomplete: %s" % st4)
    recs = recs + srecs
    n, nbad = judge(chk, recs, lambda r: r["t"] == "reasm" or (r["t"] == "frag" and r.get("isfrag")), "reassemble")
    chk.cov["traces_validated_against_impl"] = len(hs) + n
    chk.cov["evaluations"] = len(hs) + n
    chk.cov["distinct_nontrivial"] = len(hs) + len({json.dumps(r, sort_keys=True) for r in recs if r["t"] == "reasm"})
    chk.cov["records_judged_by_tlc"] = n
    chk.cov["exhaustive"] = True
    chk.cov["samples"].append({"record": next((r for r in recs if r["t"] == "reasm"), None)})
    return chk.finish()
