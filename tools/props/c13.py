"""C13 A bundle is never sent back to where it came from, nor twice to the same peer."""
from props.corecommon import *


def run(tier):
    chk = Check("C13", tier, "model_checking")
    quick = tier == "quick"
    chk.assumptions = ["as C05: mock convergence layers, scripted send outcomes, one event at a time",
                       "direct delivery to the destination node is exempt (the property speaks of peers chosen by the algorithm)",
                       "the two clauses are judged twice: by comparing every step's transmissions with Core.tla, and directly on the log of "
                       "transmissions (never to the previous node; never again after a success while the bundle stays stored)",
                       "spray-and-wait keeps its memory in RAM: after a restart it selects nobody (more conservative), which the spec states"]
    chk.cov["rule"] = ("Core.tla behaviours for 3 peers (thorough: 4) with bundles arriving with every previous node, replayed per algorithm; "
                       "histories over receive / peer up / peer down / retry tick / send failure / restart.")
    P = ["p1", "p2", "p3"]
    fam = dict(peers=P, enabled=BASIC + ["Restart"],
               cat={"b1": attr("p1", "far", prev="p1"), "b2": attr("p2", "p3", prev="p1"), "b3": attr("app", "far"), "b4": attr("p1", "bcast", prev="p1")})
    fam4 = dict(peers=P + ["p4"], enabled=["Receive", "PeerUp", "PeerDown", "SetFail", "RetryTick"],
                cat={"b1": attr("p1", "far", prev="p2"), "b2": attr("p3", "far", prev="p3", copies=4)})
    # DTLSR link-state broadcasts carrying data of one origin: fresh, repeated (same timestamp, arriving over another peer) and
    # overtaken (older): whatever the data is worth, the bundle is relayed to everybody but the peers it came from
    lsfam = dict(peers=P, enabled=["Receive", "PeerUp", "PeerDown", "RetryTick"],
                 cat={"l1": attr("p1", "bcast", prev="p1", lsd=20), "l2": attr("p2", "bcast", prev="p2", lsd=20), "l3": attr("p3", "bcast", prev="p3", lsd=10)})
    plans = [dict(name="link-state", fam=lsfam, algo="dtlsr", budget=1, steps=4 if quick else 6, sim=(40, 10) if quick else (1000, 14),
                  cap=150 if quick else None, mc=not quick)]
    # the same bundle arrives again while it is still stored (from the same or another peer): nothing the node remembers about it
    # may be forgotten. Every behaviour of the given length.
    dupfam = dict(peers=P, enabled=["Receive", "PeerUp", "RetryTick"], cat={"k1": attr("p1", "far", prev="p1", copies=4)})

    def duplicates(h):
        n, stored = 0, set()
        for st in h:
            if st["act"] == "Receive" and st["b"] in stored:
                n += 1
            stored = set(st["exp"]["stored"])
        return n
    for a in (["binary_spray", "epidemic"] if quick else ALGOS):
        plans.append(dict(name="duplicate", fam=dupfam, algo=a, budget=4, steps=5 if quick else 6, allpaths=True, cap=150 if quick else 3000, mc=False,
                          prefer=lambda h: duplicates(h) * (1 + sum(len(st["exp"]["sends"]) for st in h))))
    # a bundle of this node's own application comes back from a peer after the node lost it: the peer it came from is remembered all the
    # same (the spray variants give such a bundle a fresh budget, which Core.tla does not describe: not for them)
    famo = dict(fam, cat=dict(fam["cat"], b5=attr("p1", "far", prev="p1", ownsrc=True)))
    for a in ALGOS:
        plans.append(dict(name="prev", fam=fam if "spray" in a else famo, algo=a, budget=4, steps=4 if quick else 5, sim=(30, 12) if quick else (800, 18),
                          cap=170 if quick else None, mc=(not quick or a in ("epidemic", "dtlsr"))))
        if not quick:
            plans.append(dict(name="prev4", fam=fam4, algo=a, budget=4, steps=4, sim=(800, 16)))
    total, st = run_families(chk, "C13", plans, tier)
    own_violations(chk, "C13")
    if st.get("expected_sends", 0) < 50:
        raise InfraError("vacuous: hardly any transmissions in the behaviours")
    chk.cov["traces_validated_against_impl"] = total
    chk.cov["evaluations"] = total
    chk.cov["distinct_nontrivial"] = total
    return chk.finish()
