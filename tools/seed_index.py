#!/usr/bin/env python3
"""Regenerates /verif/seeded/INDEX.md from the meta.json files."""
import json, os, glob
ROOT = os.path.dirname(os.path.dirname(os.path.abspath(__file__)))
rows = []
for m in sorted(glob.glob(os.path.join(ROOT, "seeded", "*", "meta.json"))):
    d = json.load(open(m))
    rows.append(d)
with open(os.path.join(ROOT, "seeded", "INDEX.md"), "w") as fh:
    fh.write("# Seeded changes and the checks that catch them\n\n")
    fh.write("Each directory holds `patch.diff` (against /repo at the commit named in meta.json), the demonstration test and `meta.json`.\n")
    fh.write("Apply with `git -C /repo apply <dir>/patch.diff`, run the check, undo with `git -C /repo checkout -- .` (tools/seed_eval.py run does this).\n\n")
    fh.write("| id | property | what it changes | needs to manifest | caught by (tier, key) |\n|---|---|---|---|---|\n")
    for d in rows:
        caught = "; ".join("%s %s: %s" % (c["check"], c["tier"], c["result"]) for c in d.get("checks", []))
        fh.write("| %s | %s | %s | %s | %s |\n" % (d["id"], d["property"], d["change"].replace("|", "/"), d["needs"].replace("|", "/"), caught.replace("|", "/")))
print("INDEX.md: %d seeded changes" % len(rows))
