------------------------------ MODULE Store ------------------------------
(* The persistent bundle store (pkg/storage) as a durable map (property C08).                  *)
(* index: bundle id -> record; files: one file per stored bundle / fragment.                   *)
(* One action per public operation, plus Reopen, plus crash variants of Push and Delete at the  *)
(* instrumented points (the process is killed there; the next action is Reopen).                *)
(* Reference semantics = what the property demands:                                             *)
(*   - operations are atomic with respect to each other (also concurrent fragment pushes)       *)
(*   - a killed operation has either taken effect or not; every other record is untouched       *)
EXTENDS Integers, Sequences, FiniteSets, TLC, Json

CONSTANTS Ids,        \* bundle ids (strings)
          Parts,      \* fragment names of one bundle, e.g. {"f1","f2","f3"}: together they cover the payload
          ExpiredIds, \* ids whose bundle's creation time + lifetime lies in the past
          MaxSteps,
          EmitMode

VARIABLES idx,     \* [Ids -> [present, pending, frag, parts, expires: "past"|"future"]]
          crashed, \* "" or the id whose operation was killed: the process is down until Reopen
          orphans, \* <<id, part>> of the files a killed operation left on disk without an index entry (Push writes the file first,
                   \* Delete removes the entry first): never visible through the API, but the next push of that part finds its file there
          steps, hist
vars == <<idx, crashed, orphans, steps, hist>>

Absent == [present |-> FALSE, pending |-> FALSE, frag |-> FALSE, parts |-> {}, expires |-> "future"]
ExpOf(i) == IF i \in ExpiredIds THEN "past" ELSE "future"

Init == idx = [i \in Ids |-> Absent] /\ crashed = "" /\ orphans = {} /\ steps = 0 /\ hist = <<>>

Complete(r) == r.present /\ (~r.frag \/ r.parts = Parts)
Proj(r) == [present |-> r.present, pending |-> r.pending, frag |-> r.frag, parts |-> r.parts, complete |-> Complete(r)]
View == [i \in Ids |-> Proj(idx[i])]

(* effect of Push of the whole bundle / of fragment p of bundle i on a record *)
PushWholeFn(i, r) == IF r.present THEN r ELSE [present |-> TRUE, pending |-> FALSE, frag |-> FALSE, parts |-> {}, expires |-> ExpOf(i)]
PushFragFn(i, p, r) ==
  IF ~r.present THEN [present |-> TRUE, pending |-> FALSE, frag |-> TRUE, parts |-> {p}, expires |-> ExpOf(i)]
  ELSE IF ~r.frag THEN r                                   \* the whole bundle is already stored
  ELSE [r EXCEPT !.parts = @ \cup {p}]                     \* each distinct fragment once

Log(rec) ==
  /\ steps' = steps + 1
  /\ hist' = IF EmitMode = "none" THEN hist ELSE Append(hist, rec)
  /\ (EmitMode = "edge") => PrintT(<<"TRACE", ToJson(hist')>>)

Up == crashed = "" /\ steps < MaxSteps

PushWhole(i) ==
  /\ Up
  /\ idx' = [idx EXCEPT ![i] = PushWholeFn(i, @)]
  /\ orphans' = orphans \ {<<i, "">>}                      \* the file is written again
  /\ UNCHANGED crashed
  /\ Log([op |-> "push", id |-> i, part |-> "", exp |-> [j \in Ids |-> {Proj(idx'[j])}]])

PushFrag(i, p) ==
  /\ Up
  /\ idx' = [idx EXCEPT ![i] = PushFragFn(i, p, @)]
  /\ orphans' = orphans \ {<<i, p>>}
  /\ UNCHANGED crashed
  /\ Log([op |-> "push", id |-> i, part |-> p, exp |-> [j \in Ids |-> {Proj(idx'[j])}]])

(* two different fragments of one bundle pushed at the same time: both are recorded *)
PushBoth(i, p, q) ==
  /\ Up /\ p # q
  /\ idx' = [idx EXCEPT ![i] = PushFragFn(i, q, PushFragFn(i, p, @))]
  /\ orphans' = orphans \ {<<i, p>>, <<i, q>>}
  /\ UNCHANGED crashed
  /\ Log([op |-> "pushboth", id |-> i, part |-> p, part2 |-> q, exp |-> [j \in Ids |-> {Proj(idx'[j])}]])

(* a record that is gone stays gone: an update written back by a caller that read the record before it was deleted or swept
   (the routing code's read-modify-write racing with a delete or the cleaner) is refused *)
Update(i, pend, ex) ==
  /\ Up
  /\ idx' = IF idx[i].present THEN [idx EXCEPT ![i].pending = pend, ![i].expires = ex] ELSE idx
  /\ UNCHANGED <<crashed, orphans>>
  /\ Log([op |-> "update", id |-> i, pending |-> pend, expires |-> ex, exp |-> [j \in Ids |-> {Proj(idx'[j])}]])

Delete(i) ==
  /\ Up
  /\ idx' = [idx EXCEPT ![i] = Absent]
  /\ UNCHANGED <<crashed, orphans>>
  /\ Log([op |-> "delete", id |-> i, exp |-> [j \in Ids |-> {Proj(idx'[j])}]])

Sweep ==
  /\ Up
  /\ idx' = [i \in Ids |-> IF idx[i].present /\ idx[i].expires = "past" THEN Absent ELSE idx[i]]
  /\ UNCHANGED <<crashed, orphans>>
  /\ Log([op |-> "sweep", exp |-> [j \in Ids |-> {Proj(idx'[j])}]])

Reopen ==
  /\ steps < MaxSteps
  /\ crashed' = ""
  /\ UNCHANGED <<idx, orphans>>
  /\ Log([op |-> "reopen", exp |-> [j \in Ids |-> {Proj(idx[j])}]])

(* the process is killed inside Push / Delete of id i at crash point `at`; afterwards the operation has taken effect or not *)
CrashPush(i, p, at, took) ==
  /\ Up
  /\ LET after == IF p = "" THEN PushWholeFn(i, idx[i]) ELSE PushFragFn(i, p, idx[i])
     IN /\ after # idx[i]                                    \* only pushes that write something reach a crash point
        /\ idx' = [idx EXCEPT ![i] = IF took THEN after ELSE @]
        /\ orphans' = IF took THEN orphans \ {<<i, p>>} ELSE orphans \cup {<<i, p>>}     \* the file is there, the entry is not
        /\ crashed' = i
        /\ Log([op |-> "crash-push", id |-> i, part |-> p, at |-> at, took |-> took,
                exp |-> [j \in Ids |-> IF j = i THEN {Proj(idx[i]), Proj(after)} ELSE {Proj(idx[j])}]])

CrashDelete(i, at, took) ==
  /\ Up /\ idx[i].present
  /\ idx' = [idx EXCEPT ![i] = IF took THEN Absent ELSE @]
  /\ orphans' = IF took THEN orphans \cup (IF idx[i].frag THEN {<<i, q>> : q \in idx[i].parts} ELSE {<<i, "">>}) ELSE orphans  \* some of its files may be left
  /\ crashed' = i
  /\ Log([op |-> "crash-delete", id |-> i, at |-> at, took |-> took,
          exp |-> [j \in Ids |-> IF j = i THEN {Proj(idx[i]), Proj(Absent)} ELSE {Proj(idx[j])}]])

CrashPoints == {"before-index"}

Next ==
  \/ \E i \in Ids : PushWhole(i) \/ Delete(i)
  \/ \E i \in Ids, p \in Parts : PushFrag(i, p)
  \/ \E i \in Ids, p, q \in Parts : PushBoth(i, p, q)
  \/ \E i \in Ids, pend \in BOOLEAN, ex \in {"past", "future"} : Update(i, pend, ex)
  \/ Sweep \/ Reopen
  \/ \E i \in Ids, p \in Parts \cup {""}, took \in BOOLEAN : CrashPush(i, p, "before-index", took)
  \/ \E i \in Ids, at \in {"part-removed", "before-index"}, took \in BOOLEAN : CrashDelete(i, at, took)

Spec == Init /\ [][Next]_vars

-----------------------------------------------------------------------------
TypeOK == \A i \in Ids : idx[i].parts \subseteq Parts /\ (idx[i].parts # {} => idx[i].frag)
\* complete exactly when the fragments cover the whole payload
CompleteIffCovered == \A i \in Ids : Complete(idx[i]) <=> (idx[i].present /\ (idx[i].frag => idx[i].parts = Parts))
\* a killed operation never touches other records (action property)
CrashIsLocal == [][crashed' # "" /\ crashed = "" => \A j \in Ids : j # crashed' => idx'[j] = idx[j]]_vars
\* closing and reopening is the identity
ReopenIdentity == [][crashed' = "" /\ crashed # "" => idx' = idx]_vars
\* a file without an entry belongs to no record the API shows: whatever a crash leaves behind, the map is what the index says
OrphansUnrecorded == \A o \in orphans : ~idx[o[1]].present \/ (IF o[2] = "" THEN idx[o[1]].frag ELSE (~idx[o[1]].frag \/ o[2] \notin idx[o[1]].parts))
SView == <<idx, crashed, orphans, steps>>
Emit == (EmitMode = "final" /\ steps = MaxSteps) => PrintT(<<"TRACE", ToJson(hist)>>)
=============================================================================
