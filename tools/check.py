#!/usr/bin/env python3
import sys, os, importlib
sys.path.insert(0, os.path.dirname(os.path.abspath(__file__)))
import vlib


def main():
    if len(sys.argv) < 2:
        print("usage: check <Cxx> [quick|thorough]")
        sys.exit(2)
    pid = sys.argv[1].upper()
    tier = sys.argv[2] if len(sys.argv) > 2 else os.environ.get("VERIF_TIER", "quick")
    if tier not in ("quick", "thorough"):
        tier = "quick"
    try:
        mod = importlib.import_module("props." + pid.lower())
    except ModuleNotFoundError:
        print("ERROR no check for property", pid)
        sys.exit(2)
    vlib.main_wrapper(mod.run, pid, tier)


if __name__ == "__main__":
    main()
