package routing

// Driver for a real routing.Core: mock convergence layers registered through the real cla.Manager, a mock
// application agent behind the real AgentManager/MuxAgent, barriers, and the projection compared with Core.tla.

import (
	"bytes"
	"errors"
	"fmt"
	"os"
	"runtime"
	"sort"
	"strings"
	"sync"
	"time"

	"github.com/dtn7/dtn7-go/pkg/agent"
	"github.com/dtn7/dtn7-go/pkg/bpv7"
	"github.com/dtn7/dtn7-go/pkg/cla"
)

const vcNode = "dtn://node/"

type vcAttr struct {
	Origin     string   `json:"origin"`
	Dst        string   `json:"dst"`
	Prev       string   `json:"prev"`
	Life       string   `json:"life"`
	Clockless  bool     `json:"clockless"`
	OwnSrc     bool     `json:"ownsrc"` // received from a peer, but the source is an endpoint of this node (a bundle of ours coming back after we lost it)
	Tsg        int      `json:"tsg"`
	Req        []string `json:"req"`
	Admin      bool     `json:"admin"`
	RptLocal   bool     `json:"rptlocal"`
	RptNoAgent bool     `json:"rptnoagent"` // report-to is an endpoint of this node that no agent has registered
	RptAlias   bool     `json:"rptalias"`   // report-to is an endpoint of a local agent on another node name
	Hop        []int    `json:"hop"`
	HasUnk     bool     `json:"hasunk"`
	UnkF       []string `json:"unkf"`
	Copies     int      `json:"copies"`
	Time       bool     `json:"time"`
	Frag       bool     `json:"frag"`
	Age        int      `json:"age"`
	About      string   `json:"about"`   // administrative record: the catalogue bundle the status report is about ("" = some unknown bundle)
	RKind      string   `json:"rkind"`   // received | forwarded | delivered | deleted
	Anon       bool     `json:"anon"`    // submitted with source dtn:none (must-not-fragment set, no report requests)
	OldTs      bool     `json:"oldts"`   // the creation time lies ten minutes in the past
	RptNone    bool     `json:"rptnone"` // report-to is dtn:none although reports are requested
	UnkMore    int      `json:"unkmore"` // number of further unsupported blocks (same flags) next to the first, at most 2
	Desc       bool     `json:"desc"`    // extension blocks on the wire in descending order of their numbers (a foreign node's choice)
	Lsd        int      `json:"lsd"`     // > 0: the bundle carries DTLSR link-state data of node dtn://lsorigin/ with this timestamp
}

func (a vcAttr) unkFlags() (has bool, flags bpv7.BlockControlFlags) {
	if !a.HasUnk {
		return false, 0
	}
	for _, f := range a.UnkF {
		switch f {
		case "report":
			flags |= bpv7.StatusReportBlock
		case "delete":
			flags |= bpv7.DeleteBundle
		case "remove":
			flags |= bpv7.RemoveBlock
		}
	}
	return true, flags
}

// ---- mock peer -------------------------------------------------------------------------------------

type vcSent struct {
	At     time.Time // when the convergence layer was handed the bundle
	Name   string
	Peer   string
	Ok     bool
	Bytes  []byte
	Bundle bpv7.Bundle
}

type vcPeer struct {
	name string
	eid  bpv7.EndpointID
	w    *vcWorld
	ch   chan cla.ConvergenceStatus

	mu      sync.Mutex
	up      bool
	fail    bool
	starts  int
	closes  int
	keep    bool // keep the bundles handed to Send as they are (not serialised)
	kept    []bpv7.Bundle
	gate    chan struct{} // if set, Send waits for it (forced schedules)
	arrived chan string
}

func (p *vcPeer) Start() (error, bool) {
	p.mu.Lock()
	defer p.mu.Unlock()
	p.starts++
	if !p.up {
		return errors.New("peer is down (scripted)"), true
	}
	return nil, true
}
func (p *vcPeer) Close() error {
	p.mu.Lock()
	p.closes++
	p.mu.Unlock()
	return nil
}
func (p *vcPeer) Channel() chan cla.ConvergenceStatus { return p.ch }
func (p *vcPeer) Address() string                     { return "mock://" + p.name }
func (p *vcPeer) IsPermanent() bool                   { return true }
func (p *vcPeer) GetPeerEndpointID() bpv7.EndpointID  { return p.eid }
func (p *vcPeer) String() string                      { return "mock://" + p.name }

func (p *vcPeer) Send(b bpv7.Bundle) error {
	p.mu.Lock()
	if p.keep {
		p.kept = append(p.kept, b)
		p.mu.Unlock()
		return nil
	}
	p.mu.Unlock()
	// serialise inside Send, as real convergence layers do: forward() mutates the shared bundle afterwards
	var buf bytes.Buffer
	err := b.WriteBundle(&buf)
	p.mu.Lock()
	fail, gate, arrived := p.fail, p.gate, p.arrived
	p.mu.Unlock()
	rec := vcSent{At: time.Now(), Peer: p.name, Ok: !fail && err == nil, Bytes: buf.Bytes()}
	if err == nil {
		if pb, perr := bpv7.ParseBundle(bytes.NewReader(buf.Bytes())); perr == nil {
			rec.Bundle = pb
			rec.Name = vcNameOf(pb)
		} else {
			rec.Name = "unparsable:" + perr.Error()
		}
	} else {
		rec.Name = "unserialisable:" + err.Error()
	}
	p.w.mu.Lock()
	p.w.sends = append(p.w.sends, rec)
	p.w.mu.Unlock()
	if gate != nil {
		if arrived != nil {
			arrived <- p.name
		}
		<-gate
	}
	if fail {
		return errors.New("transmission failed (scripted)")
	}
	return err
}

// barrier receiver: a receive-only CLA that is always up and never chosen for sending
type vcBarrierCla struct {
	ch chan cla.ConvergenceStatus
}

func (r *vcBarrierCla) Start() (error, bool)                { return nil, true }
func (r *vcBarrierCla) Close() error                        { return nil }
func (r *vcBarrierCla) Channel() chan cla.ConvergenceStatus { return r.ch }
func (r *vcBarrierCla) Address() string                     { return "mock://barrier" }
func (r *vcBarrierCla) IsPermanent() bool                   { return true }
func (r *vcBarrierCla) GetEndpointID() bpv7.EndpointID {
	return bpv7.MustNewEndpointID("dtn://barrier-cla/")
}

// ---- mock agent --------------------------------------------------------------------------------------

type vcAgent struct {
	eids []bpv7.EndpointID
	recv chan agent.Message
	send chan agent.Message
	w    *vcWorld
}

func (a *vcAgent) Endpoints() []bpv7.EndpointID        { return a.eids }
func (a *vcAgent) MessageReceiver() chan agent.Message { return a.recv }
func (a *vcAgent) MessageSender() chan agent.Message   { return a.send }

func (a *vcAgent) loop() {
	for m := range a.recv {
		if bm, ok := m.(agent.BundleMessage); ok {
			name := vcNameOf(bm.Bundle)
			if len(name) > 8 && name[:8] == "barrier:" {
				a.w.barrierCh <- name
				continue
			}
			a.w.mu.Lock()
			a.w.delivered = append(a.w.delivered, name)
			a.w.deliveredBundles = append(a.w.deliveredBundles, bm.Bundle)
			a.w.mu.Unlock()
		}
	}
}

// ---- world --------------------------------------------------------------------------------------------

type vcWorld struct {
	dir      string
	algo     string
	budget   int
	cat      map[string]vcAttr
	names    []string
	peers    map[string]*vcPeer
	c        *Core
	ag       *vcAgent
	ag2      *vcAgent // the client that registers dtn://late/in (action Register)
	lateReg  bool
	bcla     *vcBarrierCla
	base     time.Time
	shortL   time.Duration
	orig     map[string]bpv7.Bundle // what was handed to the node, by name
	shortExp map[string]time.Time   // expiry instants of the short-lived bundles built so far
	origB    map[string][]byte

	mu               sync.Mutex
	sends            []vcSent
	delivered        []string
	deliveredBundles []bpv7.Bundle
	barrierCh        chan string
	barrierN         int
	stacks           string // goroutine dump taken when a barrier was overdue
	lastSentinel     *bpv7.Bundle
	seenReports      map[string]bool
}

func vcNameOf(b bpv7.Bundle) string {
	if b.IsAdministrativeRecord() {
		if src := b.PrimaryBlock.SourceNode.String(); strings.HasPrefix(src, "dtn://src-") {
			return strings.TrimSuffix(strings.TrimPrefix(src, "dtn://src-"), "/") // an administrative record of the catalogue
		}
		return "admin"
	}
	for _, t := range []uint64{bpv7.ExtBlockTypeProphetBlock, bpv7.ExtBlockTypeDTLSRBlock} {
		// the node's own routing metadata bundles; catalogue bundles that carry such a block (link-state data of another node) keep their name
		if b.HasExtensionBlock(t) && !strings.HasPrefix(b.PrimaryBlock.SourceNode.String(), "dtn://src-") {
			return "metadata"
		}
	}
	pb, err := b.PayloadBlock()
	if err != nil {
		return "nopayload"
	}
	d := string(pb.Value.(*bpv7.PayloadBlock).Data())
	if len(d) > 9 && d[:8] == "payload<" {
		return d[8 : len(d)-1]
	}
	return d
}

func vcConf(algo string, budget int) RoutingConf {
	if algo == "mule" || algo == "mule_spray" || algo == "mule_binary_spray" {
		inner := vcConf(map[string]string{"mule": "epidemic", "mule_spray": "spray", "mule_binary_spray": "binary_spray"}[algo], budget)
		return RoutingConf{Algorithm: "sensor-mule", SensorMuleConf: SensorNetworkMuleConfig{Algorithm: &inner, SensorNodeRegex: "^dtn://s[0-9]"}}
	}
	return RoutingConf{Algorithm: algo, SprayConf: SprayConfig{Multiplicity: uint64(budget)},
		ProphetConf: ProphetConfig{PInit: 0.5, Beta: 0, Gamma: 1, AgeInterval: "1000h"},
		DTLSRConf:   DTLSRConfig{RecomputeTime: "1000h", BroadcastTime: "1000h", PurgeTime: "1000h"}}
}

var vcCronJobs = []string{"pending_bundles", "clean_store", "spray_and_wait_gc", "binary_spray_gc", "dtlsr_recompute", "dtlsr_purge", "dtlsr_broadcast"}

var vcTickerOnce sync.Once

func vcNewWorld(dir, algo string, budget int, peers []string, cat map[string]vcAttr) (*vcWorld, error) {
	// the CLA manager's retry ticker never fires by itself in replays (a retried Start would only repeat the scripted answer)
	vcTickerOnce.Do(func() {
		cla.VerifTickerHook = func(_ *cla.Manager, t *time.Ticker) { t.C = make(chan time.Time) }
	})
	w := &vcWorld{dir: dir, algo: algo, budget: budget, cat: cat, peers: map[string]*vcPeer{}, base: time.Now(), shortL: 2000 * time.Millisecond,
		shortExp: map[string]time.Time{}, orig: map[string]bpv7.Bundle{}, origB: map[string][]byte{}, barrierCh: make(chan string, 16), seenReports: map[string]bool{}}
	for n := range cat {
		w.names = append(w.names, n)
	}
	sort.Strings(w.names)
	for _, p := range peers {
		w.peers[p] = &vcPeer{name: p, eid: bpv7.MustNewEndpointID("dtn://" + p + "/"), w: w, ch: make(chan cla.ConvergenceStatus)}
	}
	if err := w.open(); err != nil {
		return nil, err
	}
	return w, nil
}

func (w *vcWorld) open() error {
	c, err := NewCore(w.dir, bpv7.MustNewEndpointID(vcNode), false, vcConf(w.algo, w.budget), nil)
	if err != nil {
		return err
	}
	for _, j := range vcCronJobs {
		c.cron.Unregister(j)
	}
	w.c = c
	w.ag = &vcAgent{eids: []bpv7.EndpointID{bpv7.MustNewEndpointID("dtn://node/app"), bpv7.MustNewEndpointID("dtn://node/barrier"), bpv7.MustNewEndpointID("dtn://alias/inbox")},
		recv: make(chan agent.Message), send: make(chan agent.Message), w: w}
	go w.ag.loop()
	c.RegisterApplicationAgent(w.ag)
	if w.lateReg {
		w.registerLate()
	}
	w.bcla = &vcBarrierCla{ch: make(chan cla.ConvergenceStatus)}
	c.RegisterConvergable(w.bcla)
	for _, p := range w.peers {
		p.mu.Lock()
		p.up = false
		p.ch = make(chan cla.ConvergenceStatus)
		p.mu.Unlock()
	}
	return nil
}

// registerLate: a client registers dtn://late/in while the node runs (its deliveries are recorded like the first agent's).
func (w *vcWorld) registerLate() {
	w.lateReg = true
	w.ag2 = &vcAgent{eids: []bpv7.EndpointID{bpv7.MustNewEndpointID("dtn://late/in")}, recv: make(chan agent.Message), send: make(chan agent.Message), w: w}
	go w.ag2.loop()
	w.c.RegisterApplicationAgent(w.ag2)
}

func (w *vcWorld) close() {
	if w.c != nil {
		am := w.c.agentManager
		w.c.Close()
		w.c = nil
		// Core.Close leaves the agent manager and its multiplexer running; with thousands of worlds per process their goroutines
		// keep every closed Core (and its store's tables) reachable
		defer func() { _ = am.Close() }()
	}
	for _, ag := range []*vcAgent{w.ag, w.ag2} {
		if ag != nil {
			// ends the mux child goroutine for this agent
			select {
			case ag.send <- agent.ShutdownMessage{}:
			case <-time.After(time.Second):
			}
		}
	}
	w.ag2 = nil
}

// storeDump lists what the node's store holds (diagnosis of an overdue barrier: was the sentinel stored instead of delivered?).
func (w *vcWorld) storeDump() string {
	var sb strings.Builder
	sb.WriteString("pending records in the store:\n")
	bis, err := w.c.store.QueryPending()
	if err != nil {
		sb.WriteString("  (cannot list: " + err.Error() + ")\n")
	}
	for _, bi := range bis {
		fmt.Fprintf(&sb, "  %s constraints=%v\n", bi.Id, bi.Properties["bundlepack/constraints"])
	}
	if w.lastSentinel != nil {
		sid := w.lastSentinel.ID()
		for k := uint64(0); k < 4; k++ {
			sid.Timestamp[1] = k
			if bi, err := w.c.store.QueryId(sid); err == nil {
				fmt.Fprintf(&sb, "sentinel %s is stored: pending=%v constraints=%v\n", bi.Id, bi.Pending, bi.Properties["bundlepack/constraints"])
			}
		}
		fmt.Fprintf(&sb, "sentinel: %v -> %v\n", w.lastSentinel.PrimaryBlock.SourceNode, w.lastSentinel.PrimaryBlock.Destination)
	}
	fmt.Fprintf(&sb, "agent endpoints known to the node: %v\n\n", w.c.agentManager.mux.Endpoints())
	return sb.String()
}

func (w *vcWorld) barrierBundle() bpv7.Bundle {
	w.barrierN++
	b, err := bpv7.Builder().BundleCtrlFlags(0).Source("dtn://barrier-src/").Destination("dtn://node/barrier").CreationTimestampTime(w.base.Add(time.Duration(w.barrierN)*time.Millisecond + time.Hour)).
		Lifetime("48h").PayloadBlock([]byte(fmt.Sprintf("barrier:%d", w.barrierN))).Build()
	if err != nil {
		panic(err)
	}
	return b
}

func (w *vcWorld) waitBarrier() error {
	want := fmt.Sprintf("barrier:%d", w.barrierN)
	to := time.After(20 * time.Second)
	slow := false
	for {
		select {
		case got := <-w.barrierCh:
			if got == want {
				if slow {
					// it did arrive: the node was slow (loaded machine), not stuck; the behaviour is abandoned, not judged
					return errors.New("timing: barrier bundle took more than 20 s")
				}
				return nil
			}
		case <-to:
			if slow {
				return errors.New("deadlock: the node does not process events any more (barrier bundle not delivered within 140 s)")
			}
			// stuck or just slow? keep the stacks of all goroutines as they are now, and give the node two more minutes
			buf := make([]byte, 1<<20)
			w.stacks = w.storeDump() + string(buf[:runtime.Stack(buf, true)])
			slow = true
			to = time.After(120 * time.Second)
		}
	}
}

// inject sends a status on a CLA channel (the CLA must be active), with a timeout.
func vcInject(ch chan cla.ConvergenceStatus, cs cla.ConvergenceStatus) error {
	select {
	case ch <- cs:
		return nil
	case <-time.After(10 * time.Second):
		return errors.New("deadlock: nobody reads the channel of an active convergence layer")
	}
}

// barrierVia: all events injected before on the same channel have been processed by the Core handler when this returns.
func (w *vcWorld) barrierVia(ch chan cla.ConvergenceStatus, sender cla.Convergence) error {
	b := w.barrierBundle()
	if err := vcInject(ch, cla.NewConvergenceReceivedBundle(sender, bpv7.DtnNone(), &b)); err != nil {
		return err
	}
	if err := w.waitBarrier(); err != nil {
		return err
	}
	// the handler's last act on the barrier bundle is to remove it from the store: only then is it idle again
	// (otherwise that removal overlaps with the next event, which no behaviour of the specification asks for)
	bid := b.ID()
	for t0 := time.Now(); time.Since(t0) < 3*time.Second && w.c.store.KnowsBundle(bid); {
		time.Sleep(100 * time.Microsecond)
	}
	return nil
}

func (w *vcWorld) barrier() error { return w.barrierVia(w.bcla.ch, w.bcla) }

// build creates the bundle for a catalogue entry.
func (w *vcWorld) build(name string) bpv7.Bundle {
	if b, ok := w.orig[name]; ok {
		return b
	}
	a := w.cat[name]
	idx := sort.SearchStrings(w.names, name)
	src := "dtn://src-" + name + "/"
	if a.OwnSrc {
		src = "dtn://node/app"
	}
	if a.Origin == "app" {
		src = "dtn://node/app"
		if a.Anon {
			src = "dtn:none"
		}
	}
	var dst string
	switch a.Dst {
	case "far":
		dst = "dtn://far/"
	case "app":
		dst = "dtn://node/app"
	case "noagent":
		dst = "dtn://node/none"
	case "self":
		dst = "dtn://node/"
	case "late":
		dst = "dtn://late/in"
	case "bcast":
		dst = "dtn://routing/dtlsr/broadcast/"
	default:
		dst = "dtn://" + a.Dst + "/"
	}
	ts := w.base.Add(time.Duration(idx+1) * time.Millisecond)
	if a.Life == "short" {
		ts = time.Now() // built when first handed to the node: the short lifetime counts from then
		if a.Age > 0 && !a.Clockless {
			// a creation time AND an age block: most of the lifetime went by on the way (the age block only counts the time spent at
			// nodes), so that the creation time ends the lifetime long before the age does
			ts = ts.Add(-w.shortL * 6 / 10)
		}
		w.shortExp[name] = ts.Add(w.shortL)
	}
	if a.Tsg > 0 {
		ts = w.base.Add(time.Duration(100+a.Tsg) * time.Millisecond)
	}
	if a.OldTs {
		ts = ts.Add(-10 * time.Minute)
	}
	life := uint64(24 * 3600 * 1000)
	if a.Life == "short" {
		life = uint64(w.shortL / time.Millisecond)
	}
	var flags bpv7.BundleControlFlags
	for _, r := range a.Req {
		switch r {
		case "rcpt":
			flags |= bpv7.StatusRequestReception
		case "fwd":
			flags |= bpv7.StatusRequestForward
		case "dlv":
			flags |= bpv7.StatusRequestDelivery
		case "del":
			flags |= bpv7.StatusRequestDeletion
		}
	}
	if a.Time {
		flags |= bpv7.RequestStatusTime
	}
	if a.Anon {
		flags |= bpv7.MustNotFragmented
	}
	// what an application writes into the sequence field is its own business (the node assigns the number): bundles of one
	// (source, time) group arrive with different values there, the first of the catalogue with 0
	preset := uint64(0)
	if a.Origin == "app" && a.Tsg > 0 && idx > 0 {
		preset = uint64(idx)*3 + 1
	}
	cts := bpv7.NewCreationTimestamp(bpv7.DtnTimeFromTime(ts), preset)
	if a.Clockless {
		cts = bpv7.NewCreationTimestamp(bpv7.DtnTimeEpoch, uint64(idx))
		if a.Tsg > 0 {
			cts = bpv7.NewCreationTimestamp(bpv7.DtnTimeEpoch, preset)
		}
	}
	pb := bpv7.NewPrimaryBlock(flags, bpv7.MustNewEndpointID(dst), bpv7.MustNewEndpointID(src), cts, life)
	if a.RptLocal && a.RptAlias {
		pb.ReportTo = bpv7.MustNewEndpointID("dtn://alias/inbox")
	} else if a.RptLocal && a.RptNoAgent {
		pb.ReportTo = bpv7.MustNewEndpointID("dtn://node/monitor")
	} else if a.RptLocal {
		pb.ReportTo = bpv7.MustNewEndpointID("dtn://node/app")
	} else if a.RptNone {
		pb.ReportTo = bpv7.DtnNone()
	} else if len(a.Req) > 0 {
		pb.ReportTo = bpv7.MustNewEndpointID("dtn://rpt/")
	}
	payload := []byte("payload<" + name + ">")
	if a.Admin {
		pb.BundleControlFlags |= bpv7.AdministrativeRecordPayload
	}
	if a.Frag {
		pb.BundleControlFlags |= bpv7.IsFragment
		pb.FragmentOffset, pb.TotalDataLength = 3, uint64(len(payload)+10)
	}
	pb.CRC = nil
	pb.SetCRCType(bpv7.CRC32)
	var cbs []bpv7.CanonicalBlock
	no := uint64(2)
	add := func(fl bpv7.BlockControlFlags, v bpv7.ExtensionBlock) {
		cb := bpv7.NewCanonicalBlock(no, fl, v)
		cb.SetCRCType(bpv7.CRC16)
		cbs = append(cbs, cb)
		no++
	}
	if a.Prev != "none" && a.Prev != "" {
		add(0, bpv7.NewPreviousNodeBlock(bpv7.MustNewEndpointID("dtn://"+a.Prev+"/")))
	}
	if len(a.Hop) == 2 {
		h := bpv7.NewHopCountBlock(uint8(a.Hop[0]))
		h.Count = uint8(a.Hop[1])
		add(bpv7.ReplicateBlock, h)
	}
	if a.Clockless || a.Age > 0 {
		age := a.Age
		if age == 0 {
			age = 1000
		}
		add(0, bpv7.NewBundleAgeBlock(uint64(age)))
	}
	if has, fl := a.unkFlags(); has {
		add(fl, bpv7.NewGenericExtensionBlock([]byte{0xca, 0xfe}, 222))
		for k := 0; k < a.UnkMore; k++ { // further unsupported blocks with the same flags, right behind the first
			add(fl, bpv7.NewGenericExtensionBlock([]byte{0xbe, byte(k)}, uint64(223+k)))
		}
	}
	if a.Copies > 0 {
		add(0, bpv7.NewBinarySprayBlock(uint64(a.Copies)))
	}
	if a.Lsd > 0 {
		add(0, bpv7.NewDTLSRBlock(bpv7.DTLSRPeerData{ID: bpv7.MustNewEndpointID("dtn://lsorigin/"), Timestamp: bpv7.DtnTime(a.Lsd),
			Peers: map[bpv7.EndpointID]bpv7.DtnTime{bpv7.MustNewEndpointID("dtn://lsother/"): 0}}))
	}
	if a.Admin {
		ref := vcRefBundle()
		kind := bpv7.ReceivedBundle
		if a.About != "" {
			ref = w.build(a.About)
			switch a.RKind {
			case "forwarded":
				kind = bpv7.ForwardedBundle
			case "delivered":
				kind = bpv7.DeliveredBundle
			case "deleted":
				kind = bpv7.DeletedBundle
			}
		}
		ar, _ := bpv7.AdministrativeRecordToCbor(bpv7.NewStatusReport(ref, kind, bpv7.NoInformation, bpv7.DtnTimeNow()))
		ar.BlockNumber = 1
		cbs = append(cbs, ar)
	} else {
		pl := bpv7.NewCanonicalBlock(1, 0, bpv7.NewPayloadBlock(payload))
		pl.SetCRCType(bpv7.CRC32)
		cbs = append(cbs, pl)
	}
	b := bpv7.MustNewBundle(pb, cbs)
	if a.Desc {
		for i, j := 0, len(b.CanonicalBlocks)-2; i < j; i, j = i+1, j-1 {
			b.CanonicalBlocks[i], b.CanonicalBlocks[j] = b.CanonicalBlocks[j], b.CanonicalBlocks[i]
		}
	}
	w.orig[name] = b
	var buf bytes.Buffer
	_ = b.WriteBundle(&buf)
	w.origB[name] = buf.Bytes()
	return b
}

func vcRefBundle() bpv7.Bundle {
	b, _ := bpv7.Builder().Source("dtn://elsewhere/").Destination("dtn://nowhere/").CreationTimestampNow().Lifetime("1h").PayloadBlock([]byte("ref")).Build()
	return b
}

// fresh returns a private copy (parsed from the original bytes), like a convergence layer or client would hand over.
func (w *vcWorld) fresh(name string) bpv7.Bundle {
	w.build(name)
	b, err := bpv7.ParseBundle(bytes.NewReader(w.origB[name]))
	if err != nil {
		// not parsable (e.g. expired on purpose): hand over a deep copy through the constructors instead
		o := w.orig[name]
		cbs := append([]bpv7.CanonicalBlock{}, o.CanonicalBlocks...)
		return bpv7.MustNewBundle(o.PrimaryBlock, cbs)
	}
	return b
}

func (w *vcWorld) takeOutputs() (sends []vcSent, delivered []string) {
	w.mu.Lock()
	sends, delivered = w.sends, w.delivered
	w.sends, w.delivered = nil, nil
	w.mu.Unlock()
	return
}

// ---- actions ---------------------------------------------------------------------------------------------

func (w *vcWorld) submit(name string) error {
	if err := w.submitOnly(name); err != nil {
		return err
	}
	return w.submitBarrier()
}

func (w *vcWorld) submitOnly(name string) error {
	b := w.fresh(name)
	select {
	case w.ag.send <- agent.BundleMessage{Bundle: b}:
		return nil
	case <-time.After(10 * time.Second):
		return errors.New("deadlock: the node does not take a bundle from the application agent")
	}
}

// race: a bundle arrives from its peer while the application submits another one: the Core's handler and the agent manager's
// goroutine work on the shared store at the same time.
func (w *vcWorld) race(recvName, submitName string) error {
	p := w.peers[w.cat[recvName].Origin]
	rb := w.fresh(recvName)
	w.build(submitName)
	start := make(chan struct{})
	errs := make(chan error, 2)
	go func() {
		<-start
		errs <- vcInject(p.ch, cla.NewConvergenceReceivedBundle(p, bpv7.DtnNone(), &rb))
	}()
	go func() {
		<-start
		errs <- w.submitOnly(submitName)
	}()
	close(start)
	for i := 0; i < 2; i++ {
		if err := <-errs; err != nil {
			return err
		}
	}
	if err := w.barrierVia(p.ch, p); err != nil {
		return err
	}
	return w.submitBarrier()
}

func (w *vcWorld) submitBarrier() error {
	// sentinel submission queued behind: comes back to the agent only after the real one was processed completely
	s := w.barrierBundle()
	s.PrimaryBlock.SourceNode = bpv7.MustNewEndpointID("dtn://node/barrier")
	s.PrimaryBlock.ReportTo = s.PrimaryBlock.SourceNode
	s.PrimaryBlock.CRC = nil
	s.PrimaryBlock.SetCRCType(bpv7.CRC32)
	w.lastSentinel = &s
	select {
	case w.ag.send <- agent.BundleMessage{Bundle: s}:
	case <-time.After(20 * time.Second):
		return errors.New("deadlock: the node does not take a second bundle from the application agent")
	}
	if err := w.waitBarrier(); err != nil {
		return err
	}
	// the agent manager's goroutine is still finishing the sentinel's local delivery (its last act removes it from the store)
	sid := s.ID()
	gone := func() bool {
		for k := uint64(0); k < 3; k++ {
			sid.Timestamp[1] = k
			if w.c.store.KnowsBundle(sid) {
				return false
			}
		}
		return true
	}
	t0 := time.Now()
	for time.Since(t0) < 3*time.Second {
		if gone() {
			return nil
		}
		time.Sleep(200 * time.Microsecond)
	}
	// stuck or just slow? keep the goroutines as they are now and give it another minute
	buf := make([]byte, 1<<20)
	w.stacks = w.storeDump() + string(buf[:runtime.Stack(buf, true)])
	for time.Since(t0) < 63*time.Second {
		if gone() {
			return errors.New("timing: sentinel submission took more than 3 s to leave the store")
		}
		time.Sleep(time.Millisecond)
	}
	return errors.New("deadlock: sentinel submission is never released from the store")
}

func (w *vcWorld) receive(name string) error {
	p := w.peers[w.cat[name].Origin]
	b := w.fresh(name)
	if err := vcInject(p.ch, cla.NewConvergenceReceivedBundle(p, bpv7.DtnNone(), &b)); err != nil {
		return err
	}
	return w.barrierVia(p.ch, p)
}

func (w *vcWorld) peerUp(name string) error {
	p := w.peers[name]
	p.mu.Lock()
	p.up = true
	p.mu.Unlock()
	w.c.RegisterConvergable(p)
	active := false
	for _, s := range w.c.claManager.Sender() {
		if s.Address() == p.Address() {
			active = true
		}
	}
	if !active {
		return errors.New("peer was registered and started but is not among the manager's active senders")
	}
	if err := vcInject(p.ch, cla.NewConvergencePeerAppeared(p, p.eid)); err != nil {
		return err
	}
	return w.barrierVia(p.ch, p)
}

func (w *vcWorld) peerDown(name string) error {
	p := w.peers[name]
	p.mu.Lock()
	p.up = false
	closes := p.closes
	p.mu.Unlock()
	if err := vcInject(p.ch, cla.NewConvergencePeerDisappeared(p, p.eid)); err != nil {
		return err
	}
	// the manager restarts the CLA (Close, then a failing Start) before it passes the event on
	for i := 0; i < 5000; i++ {
		p.mu.Lock()
		done := p.closes > closes
		p.mu.Unlock()
		if done {
			break
		}
		time.Sleep(time.Millisecond)
	}
	return w.barrier()
}

func (w *vcWorld) setFail(name string, v bool) {
	p := w.peers[name]
	p.mu.Lock()
	p.fail = v
	p.mu.Unlock()
}

func (w *vcWorld) restart() error {
	w.close()
	return w.open()
}

// lookup finds the store record holding the bundle called name: tries the sequence numbers the node may have assigned.
func (w *vcWorld) lookup(name string) (found bool, pending bool, seq int, dup bool) {
	b := w.build(name)
	id := b.ID()
	max := 0
	if w.cat[name].Origin == "app" {
		max = len(w.names) + 1
	}
	for k := 0; k <= max; k++ {
		cand := id
		if w.cat[name].Origin == "app" {
			cand.Timestamp[1] = uint64(k)
		}
		bi, err := w.c.store.QueryId(cand)
		if err != nil || len(bi.Parts) == 0 {
			continue
		}
		raw, err := os.ReadFile(bi.Parts[0].Filename)
		if err != nil {
			continue
		}
		// the parser fills the bundle before it judges validity, so expired bundles can be identified as well
		sb, _ := bpv7.ParseBundle(bytes.NewReader(raw))
		if !bytes.Equal(vcPayloadOf(sb), vcPayloadOf(b)) {
			continue
		}
		if found {
			dup = true
			continue
		}
		found, pending, seq = true, bi.Pending, k
	}
	return
}

func vcPayloadOf(b bpv7.Bundle) []byte {
	pb, err := b.PayloadBlock()
	if err != nil {
		return nil
	}
	return pb.Value.(*bpv7.PayloadBlock).Data()
}
