package bbc

import (
	"bytes"
	"encoding/binary"
	"encoding/hex"
	"fmt"
	"hash/crc32"
	"math/rand"
	"os"
	"os/exec"
	"regexp"
	"runtime"
	"strings"
	"syscall"
	"testing"
)

// The payload of a transmission is an xz container: stream header (12 bytes), blocks (header with its own CRC32, LZMA2 data,
// padding, check), index (0x00, number of records as a varint, records, padding, CRC32), footer. The container's own length and
// count fields are read by IncomingTransmission.Bundle from bytes a radio neighbour chose: the number of index records and the
// dictionary size of the LZMA2 filter are sizes the decoder allocates from.

func vxzUvarint(v uint64) []byte {
	var b []byte
	for v >= 0x80 {
		b = append(b, byte(v)|0x80)
		v >>= 7
	}
	return append(b, byte(v))
}

// vxzBlockHeader builds a block header with a correct CRC32: optional compressed / uncompressed size fields, the LZMA2 filter with
// the given dictionary size byte.
func vxzBlockHeader(dict byte, csize, usize *uint64) []byte {
	var flags byte
	body := []byte{}
	if csize != nil {
		flags |= 0x40
		body = append(body, vxzUvarint(*csize)...)
	}
	if usize != nil {
		flags |= 0x80
		body = append(body, vxzUvarint(*usize)...)
	}
	body = append(body, 0x21, 0x01, dict)
	h := append([]byte{0, flags}, body...)
	for (len(h)+4)%4 != 0 {
		h = append(h, 0)
	}
	h[0] = byte((len(h)+4)/4 - 1)
	var c [4]byte
	binary.LittleEndian.PutUint32(c[:], crc32.ChecksumIEEE(h))
	return append(h, c[:]...)
}

// vxzSite names the container field a hostile payload aims at ("" if none): used to tell the call sites of the decoder apart.
func vxzSite(p []byte) string {
	if len(p) < 13 || !bytes.Equal(p[:6], []byte{0xfd, '7', 'z', 'X', 'Z', 0}) {
		return ""
	}
	if p[12] == 0 {
		return "xz-index-count"
	}
	hl := (int(p[12]) + 1) * 4
	if len(p) < 12+hl {
		return ""
	}
	h := p[12 : 12+hl]
	if crc32.ChecksumIEEE(h[:hl-4]) != binary.LittleEndian.Uint32(h[hl-4:]) {
		return ""
	}
	// the filter's property byte is the last non-padding byte before the CRC when the filter is LZMA2
	if i := bytes.Index(h[2:hl-4], []byte{0x21, 0x01}); i >= 0 && 2+i+2 < hl-4 && h[2+i+2] > 0x16 {
		return "xz-dict-size"
	}
	if h[1]&0xc0 != 0 {
		return "xz-block-sizes"
	}
	return ""
}

var vxzFrame = regexp.MustCompile(`(?m)^([A-Za-z0-9_./\-]+\.[A-Za-z0-9_(*).]+)\(`)

// vxzChild runs one payload in a process of its own (this test binary, TestVerifC04BbcChild): an allocation beyond the address
// space limit ends the process with a fatal error no recover() catches.
func vxzChild(payload []byte) string {
	cmd := exec.Command(os.Args[0], "-test.run", "^TestVerifC04BbcChild$", "-test.v")
	cmd.Env = append(os.Environ(), "VERIF_CHILD_HEX="+hex.EncodeToString(payload), "VERIF_OUT="+os.DevNull)
	out, err := cmd.CombinedOutput()
	s := string(out)
	if i := strings.Index(s, "CHILD-RESULT["); i >= 0 {
		j := strings.Index(s[i:], "]END")
		if j > 0 {
			return s[i+len("CHILD-RESULT[") : i+j]
		}
	}
	if err != nil {
		for _, mark := range []string{"fatal error:", "panic:"} {
			if i := strings.Index(s, mark); i >= 0 {
				first := strings.SplitN(s[i:], "\n", 2)[0]
				site := ""
				for _, m := range vxzFrame.FindAllStringSubmatch(s[i:], -1) {
					if !strings.HasPrefix(m[1], "runtime.") {
						site = m[1]
						if k := strings.LastIndex(site, "/"); k >= 0 {
							site = site[k+1:]
						}
						break
					}
				}
				return "crash: " + first + " in " + site
			}
		}
		return "infra: child failed: " + err.Error() + ": " + s[:minI(len(s), 300)]
	}
	return "infra: child gave no result: " + s[:minI(len(s), 300)]
}

func TestVerifC04BbcChild(t *testing.T) {
	h := os.Getenv("VERIF_CHILD_HEX")
	if h == "" {
		t.Skip("child of TestVerifC04Bbc only")
	}
	payload, err := hex.DecodeString(h)
	if err != nil {
		t.Fatal(err)
	}
	var lim syscall.Rlimit
	if syscall.Getrlimit(syscall.RLIMIT_AS, &lim) == nil {
		lim.Cur = 6 << 30
		_ = syscall.Setrlimit(syscall.RLIMIT_AS, &lim)
	}
	var before, after runtime.MemStats
	runtime.ReadMemStats(&before)
	res := ""
	func() {
		defer func() {
			if p := recover(); p != nil {
				res = fmt.Sprintf("panic: %v", p)
			}
		}()
		it, err := NewIncomingTransmission(NewFragment(1, 1, true, true, false, payload))
		if err == nil {
			_, _ = it.Bundle()
		}
	}()
	runtime.ReadMemStats(&after)
	if d := after.TotalAlloc - before.TotalAlloc; res == "" && d > uint64(48<<20+256*len(payload)) {
		res = fmt.Sprintf("balloon: %d bytes allocated for %d bytes of input", d, len(payload))
	}
	fmt.Printf("CHILD-RESULT[%s]END\n", res)
}

func TestVerifC04Bbc(t *testing.T) {
	n := 0
	vhGuardSlack = 48 << 20 // the xz decoder allocates its 8 MiB dictionary (a constant of the sender's xz settings) for every stream
	rng := rand.New(rand.NewSource(vhSeed()))
	// fragments: every header byte pair with short payloads, and too short inputs
	for _, in := range [][]byte{{}, {1}, {1, 2}, {255, 255}, {0, 0, 0}} {
		in := in
		n++
		if p := vhGuard(len(in), func() { _, _ = ParseFragment(in) }); p != "" {
			vhViol("robust/bbc-fragment/"+vhClass(p), p, vhRec{"input": fmt.Sprintf("%x", in)})
		}
	}
	// transmissions: the reassembled payload is an xz stream; hostile ones: truncated, header bytes changed, garbage
	b := vbBundle("robust", 200)
	frs, err := vbTrain(9, b, 1000)
	if err != nil || len(frs) != 1 {
		t.Fatal("cannot build the base transmission")
	}
	xzs := frs[0].Payload
	forced := ""
	try := func(payload []byte, note string) {
		n++
		site := vxzSite(payload)
		if forced != "" {
			site = forced
		}
		var p string
		if site != "" {
			// aims at a size field of the container: in a process of its own
			p = vxzChild(payload)
			if strings.HasPrefix(p, "infra:") {
				t.Fatal(p)
			}
		} else {
			p = vhGuard(len(payload), func() {
				it, err := NewIncomingTransmission(NewFragment(1, 1, true, true, false, payload))
				if err == nil {
					_, _ = it.Bundle()
				}
			})
		}
		if p != "" {
			key := "robust/bbc-transmission/" + vhClass(p)
			if site != "" {
				key += "/" + site
			}
			vhViol(key, fmt.Sprintf("IncomingTransmission.Bundle, %s: %s", note, p), vhRec{"payload": fmt.Sprintf("%x", payload[:minI(len(payload), 64)]), "note": note})
		}
	}
	// the container's own size fields at the boundary values, with correct header checksums
	bounds := []uint64{0, 1, 23, 24, 1 << 16, 1<<31 - 1, 1 << 31, 1<<32 - 1, 1 << 62, 1 << 63, 1<<64 - 1}
	hl := (int(xzs[12]) + 1) * 4
	idx := bytes.LastIndex(xzs[:len(xzs)-12], []byte{0x00, 0x01}) // index of the single-block stream: indicator, one record
	if hl != 12 || idx < 12+hl {
		t.Fatalf("unexpected layout of the base xz stream: header %d index %d", hl, idx)
	}
	for _, v := range append([]uint64{1 << 24}, bounds...) { // 2^24 records: large enough to be measured, small enough to be granted
		cnt := vxzUvarint(v)
		try(append(append([]byte{}, xzs[:12]...), append(append([]byte{0}, cnt...), make([]byte, 24)...)...), fmt.Sprintf("xz index right after the stream header, number of records %d", v))
		m := append(append(append([]byte{}, xzs[:idx+1]...), cnt...), xzs[idx+2:]...)
		forced = "xz-index-count"
		try(m, fmt.Sprintf("xz index after the block, number of records %d", v))
		forced = ""
		v := v
		for _, which := range []string{"compressed", "uncompressed", "both"} {
			var c, u *uint64
			if which != "uncompressed" {
				c = &v
			}
			if which != "compressed" {
				u = &v
			}
			m := append(append(append([]byte{}, xzs[:12]...), vxzBlockHeader(0x16, c, u)...), xzs[12+hl:]...)
			try(m, fmt.Sprintf("xz block header declares %s size %d", which, v))
		}
	}
	for d := 0; d <= 41; d++ {
		m := append(append(append([]byte{}, xzs[:12]...), vxzBlockHeader(byte(d), nil, nil)...), xzs[12+hl:]...)
		try(m, fmt.Sprintf("xz block header declares dictionary size byte %d", d))
		try(m[:12+hl+3], fmt.Sprintf("xz block header declares dictionary size byte %d, stream ends after three more bytes", d))
	}
	for i := 0; i <= len(xzs); i++ {
		try(xzs[:i], fmt.Sprintf("xz stream truncated at %d", i))
	}
	for pos := 0; pos < len(xzs) && pos < 40; pos++ {
		for _, v := range []byte{0, 1, 0x7f, 0x80, 0xff} {
			m := append([]byte{}, xzs...)
			m[pos] = v
			try(m, fmt.Sprintf("xz byte %d := %#x", pos, v))
		}
	}
	for k := 0; k < 200; k++ {
		g := make([]byte, rng.Intn(300))
		rng.Read(g)
		try(g, "random bytes")
		try(append(append([]byte{}, xzs[:12]...), g...), "xz header followed by random bytes")
	}
	_ = bytes.Equal
	vhStat("inputs", n)
	vhDone()
}

func minI(a, b int) int {
	if a < b {
		return a
	}
	return b
}
