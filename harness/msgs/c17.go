package msgs

// C17 (TCPCLv4): values enumerated by WireAux.tla are built with the real constructors, encoded, compared with the
// RFC 9174 layout the specification gives, decoded from a stream that continues with other data, and concatenated.

import (
	"bytes"
	"encoding/json"
	"fmt"
	"io"
	"math/rand"
	"os"
	"reflect"
	"testing"
	"testing/iotest"
)

type vxCase struct {
	K         string `json:"k"`
	Valid     bool   `json:"valid"`
	Bytes     []int  `json:"bytes"`
	Tail      int    `json:"tail"`
	After     []int  `json:"after"`
	Flags     int    `json:"flags"`
	Ver       int    `json:"ver"`
	Magic     []int  `json:"magic"`
	Keepalive int    `json:"keepalive"`
	SegMru    []int  `json:"segmru"`
	XferMru   []int  `json:"xfermru"`
	IdLen     int    `json:"idlen"`
	Reason    int    `json:"reason"`
	Tid       []int  `json:"tid"`
	DLen      int    `json:"dlen"`
	AckLen    []int  `json:"acklen"`
	Header    int    `json:"header"`
}

func vxU(u []int) uint64 {
	var v uint64
	for _, b := range u {
		v = v<<8 | uint64(b)
	}
	return v
}

func (c vxCase) spec() []byte {
	var o []byte
	for _, b := range c.Bytes {
		o = append(o, byte(b))
	}
	o = append(o, bytes.Repeat([]byte{'a'}, c.Tail)...)
	for _, b := range c.After {
		o = append(o, byte(b))
	}
	return o
}

func (c vxCase) build() Message {
	switch c.K {
	case "contact":
		return NewContactHeader(ContactFlags(c.Flags))
	case "sess_init":
		return NewSessionInitMessage(uint16(c.Keepalive), vxU(c.SegMru), vxU(c.XferMru), string(bytes.Repeat([]byte{'a'}, c.IdLen)))
	case "sess_term":
		return NewSessionTerminationMessage(SessionTerminationFlags(c.Flags), SessionTerminationCode(c.Reason))
	case "xfer_segment":
		return NewDataTransmissionMessage(SegmentFlags(c.Flags), vxU(c.Tid), bytes.Repeat([]byte{'a'}, c.DLen))
	case "xfer_ack":
		return NewDataAcknowledgementMessage(SegmentFlags(c.Flags), vxU(c.Tid), vxU(c.AckLen))
	case "xfer_refuse":
		return NewTransferRefusalMessage(TransferRefusalCode(c.Reason), vxU(c.Tid))
	case "keepalive":
		return NewKeepaliveMessage()
	case "msg_reject":
		return NewMessageRejectionMessage(MessageRejectionReason(c.Reason), uint8(c.Header))
	}
	return nil
}

var vxSentinel = []byte{0xa5, 0x5a, 0xa5, 0x5a, 0x00, 0xff}

func vxSame(a, b Message) bool {
	// an empty and a nil data slice are the same value
	if x, ok := a.(*DataTransmissionMessage); ok {
		if y, ok := b.(*DataTransmissionMessage); ok {
			return x.Flags == y.Flags && x.TransferId == y.TransferId && bytes.Equal(x.Data, y.Data)
		}
	}
	return reflect.DeepEqual(a, b)
}

func TestVerifC17Tcpcl(t *testing.T) {
	var cases []vxCase
	var raws [][]byte
	if err := vhLines(os.Getenv("VERIF_IN"), func(b []byte) {
		var c vxCase
		if err := json.Unmarshal(b, &c); err != nil {
			t.Fatal(err)
		}
		cases = append(cases, c)
		raws = append(raws, b)
	}); err != nil {
		t.Fatal(err)
	}
	nvalid, ninvalid, nconcat := 0, 0, 0
	var goodMsgs []Message
	var goodBytes [][]byte
	for i, c := range cases {
		viol := func(key, desc string) {
			vhViol("aux/tcpcl/"+c.K+"/"+key, desc, vhRec{"case": json.RawMessage(raws[i])})
		}
		spec := c.spec()
		func() {
			defer func() {
				if p := recover(); p != nil {
					viol("panic", fmt.Sprint(p))
				}
			}()
			if c.K == "contact" && (c.Ver != 4 || string([]byte{byte(c.Magic[0]), byte(c.Magic[1]), byte(c.Magic[2]), byte(c.Magic[3])}) != "dtn!") {
				// wrong magic or version: only the byte level can express it
				ninvalid++
				var ch ContactHeader
				if err := ch.Unmarshal(bytes.NewReader(spec)); err == nil {
					viol("invalid-accepted", fmt.Sprintf("contact header %x accepted", spec))
				}
				return
			}
			m := c.build()
			var buf bytes.Buffer
			if err := m.Marshal(&buf); err != nil {
				viol("marshal-error", err.Error())
				return
			}
			real := buf.Bytes()
			if !c.Valid {
				// the invalid value, produced through the encoder, must be rejected by the decoder
				ninvalid++
				if _, err := ReadMessage(bytes.NewReader(append(append([]byte{}, real...), vxSentinel...))); err == nil {
					viol("invalid-accepted", fmt.Sprintf("invalid value decoded without error from %x", real))
				}
				return
			}
			nvalid++
			if !bytes.Equal(real, spec) {
				viol("layout", fmt.Sprintf("encoding %x differs from the RFC 9174 layout %x", vxShort(real), vxShort(spec)))
				return
			}
			// the transport may hand the bytes over in pieces of any size (TCP segments, WebSocket frames): whole, byte by byte,
			// in halves, in random pieces - the decoder has to consume exactly the encoding each time
			for kind := 1; kind <= 3; kind++ {
				pr := vxPieces(append(append([]byte{}, real...), vxSentinel...), kind, int64(i))
				pg, perr := ReadMessage(pr)
				if perr != nil {
					viol("decode-error-in-pieces", fmt.Sprintf("reader kind %d: %v", kind, perr))
					return
				}
				if !vxSame(pg, m) {
					viol("round-trip-in-pieces", fmt.Sprintf("reader kind %d: decoded %v, encoded %v", kind, pg, m))
					return
				}
				if rest, _ := io.ReadAll(pr); !bytes.Equal(rest, vxSentinel) {
					viol("alignment-in-pieces", fmt.Sprintf("reader kind %d: decoder consumed %d bytes, the encoding has %d", kind, len(real)+len(vxSentinel)-len(rest), len(real)))
					return
				}
			}
			r := bytes.NewReader(append(append([]byte{}, real...), vxSentinel...))
			got, err := ReadMessage(r)
			if err != nil {
				viol("decode-error", err.Error())
				return
			}
			if !vxSame(got, m) {
				viol("round-trip", fmt.Sprintf("decoded %v, encoded %v", got, m))
				return
			}
			rest, _ := io.ReadAll(r)
			if !bytes.Equal(rest, vxSentinel) {
				viol("alignment", fmt.Sprintf("decoder consumed %d bytes, the encoding has %d", len(real)+len(vxSentinel)-len(rest), len(real)))
				return
			}
			if c.K != "contact" && len(real) < 300 {
				goodMsgs = append(goodMsgs, m)
				goodBytes = append(goodBytes, real)
			}
		}()
	}
	// concatenations of up to five messages on one stream
	rng := rand.New(rand.NewSource(vhSeed()))
	for n := 0; n < 3000 && len(goodMsgs) > 0; n++ {
		k := 2 + rng.Intn(4)
		var stream []byte
		var want []Message
		for j := 0; j < k; j++ {
			x := rng.Intn(len(goodMsgs))
			stream = append(stream, goodBytes[x]...)
			want = append(want, goodMsgs[x])
		}
		r := vxPieces(stream, n%4, int64(n))
		for j := 0; j < k; j++ {
			got, err := ReadMessage(r)
			if err != nil || !vxSame(got, want[j]) {
				vhViol("aux/tcpcl/stream/misaligned", fmt.Sprintf("message %d of %d on one stream: got %v (%v), expected %v", j, k, got, err, want[j]), vhRec{"stream": fmt.Sprintf("%x", stream)})
				break
			}
		}
		nconcat++
	}
	vhStat("values_valid", nvalid)
	vhStat("values_invalid", ninvalid)
	vhStat("concatenations", nconcat)
	vhSample(vhRec{"case": json.RawMessage(raws[len(raws)/2])})
	vhDone()
}

// vxPieces returns a reader over b that delivers it whole (0), byte by byte (1), in halves of what is asked for (2) or in
// random pieces (3).
func vxPieces(b []byte, kind int, seed int64) io.Reader {
	switch kind {
	case 1:
		return iotest.OneByteReader(bytes.NewReader(b))
	case 2:
		return iotest.HalfReader(bytes.NewReader(b))
	case 3:
		return &vxRandomPieces{b: b, rng: rand.New(rand.NewSource(seed))}
	}
	return bytes.NewReader(b)
}

type vxRandomPieces struct {
	b   []byte
	rng *rand.Rand
}

func (p *vxRandomPieces) Read(out []byte) (int, error) {
	if len(p.b) == 0 {
		return 0, io.EOF
	}
	n := 1 + p.rng.Intn(7)
	if n > len(out) {
		n = len(out)
	}
	if n > len(p.b) {
		n = len(p.b)
	}
	copy(out, p.b[:n])
	p.b = p.b[n:]
	return n, nil
}

func vxShort(b []byte) []byte {
	if len(b) > 64 {
		return b[:64]
	}
	return b
}
