#!/usr/bin/env python3
"""Shared machinery: TLC runner, go-test-with-overlay runner, evidence writer, known findings.

Exit-code discipline (DESIGN.md section 3):
  0  property held on everything explored (KNOWN-FINDING lines allowed)
  1  VIOLATION observed on the real code (replay file written)
  2  infrastructure error: no verdict
"""
import json, os, re, shutil, subprocess, sys, tempfile, time, hashlib, atexit, glob

ROOT = os.path.dirname(os.path.dirname(os.path.abspath(__file__)))
REPO = os.environ.get("VERIF_REPO", "/repo")
JAR = "/opt/veriftools/tla/tla2tools.jar:/opt/veriftools/tla/CommunityModules-deps.jar"
SPEC = os.path.join(ROOT, "spec")
HARNESS = os.path.join(ROOT, "harness")
OUT = os.path.join(ROOT, "out")
EVID = os.path.join(ROOT, "evidence")
NCPU = os.cpu_count() or 4

_scratch_root = None


class InfraError(Exception):
    pass


def scratch_root():
    global _scratch_root
    if _scratch_root is None:
        base = "/dev/shm" if os.path.isdir("/dev/shm") and os.access("/dev/shm", os.W_OK) else tempfile.gettempdir()
        _scratch_root = tempfile.mkdtemp(prefix="verif-%d-" % os.getpid(), dir=base)
        if not os.environ.get("VERIF_KEEP"):      # VERIF_KEEP=1: leave inputs and TLC output behind for inspection
            atexit.register(lambda: shutil.rmtree(_scratch_root, ignore_errors=True))
    return _scratch_root


def scratch(name):
    d = os.path.join(scratch_root(), name)
    os.makedirs(d, exist_ok=True)
    return d


def seed():
    try:
        return int(os.environ.get("VERIF_SEED", "1"))
    except ValueError:
        return 1


# --------------------------------------------------------------------------------------------
# TLC
# --------------------------------------------------------------------------------------------

class TlcResult:
    def __init__(self):
        self.rc = None
        self.out = ""
        self.generated = 0
        self.distinct = 0
        self.depth = 0
        self.traces = []        # decoded JSON payloads printed as <<"TRACE", "...">>
        self.tagged = {}        # other tags -> list of payloads
        self.violated = None    # name of violated invariant / property, if any
        self.error = None
        self.wall = 0.0
        self.coverage_zero = []

    @property
    def ok(self):
        return self.rc == 0


_TLA_STR = re.compile(r'^<<"([A-Z_]+)", "(.*)">>$')


def _unescape_tla(s):
    # TLC prints strings with \" and \\ escapes
    out = []
    i = 0
    while i < len(s):
        c = s[i]
        if c == "\\" and i + 1 < len(s):
            n = s[i + 1]
            if n == "n":
                out.append("\n")
            elif n == "t":
                out.append("\t")
            else:
                out.append(n)
            i += 2
        else:
            out.append(c)
            i += 1
    return "".join(out)


def run_tlc(module, cfg_text, name=None, workers=None, simulate=None, depth=None, tseed=None,
            coverage=False, timeout=600, extra_files=None, deadlock=True, heap="8g", view_dfid=None,
            keep_out=False, collect=True, extra_modules=()):
    """Run TLC on spec/<module>.tla with the given cfg text in a scratch dir.

    simulate: None or number of behaviours (runs -simulate num=N with -depth depth).
    Returns TlcResult. Raises InfraError on timeout / JVM trouble.
    """
    name = name or module
    d = scratch("tlc-" + name + "-" + hashlib.md5((cfg_text + str(simulate) + str(tseed)).encode()).hexdigest()[:8])
    for f in glob.glob(os.path.join(SPEC, "*.tla")):
        shutil.copy(f, d)
    for src in (extra_files or {}):
        dst = os.path.join(d, src)
        with open(dst, "w") as fh:
            fh.write(extra_files[src])
    cfg = os.path.join(d, name + ".cfg")
    with open(cfg, "w") as fh:
        fh.write(cfg_text)
    meta = os.path.join(d, "meta")
    if workers is None:
        workers = NCPU
    cmd = ["java", "-Xss512m", "-Xmx" + heap, "-XX:+UseParallelGC", "-XX:ParallelGCThreads=%d" % max(2, min(8, (workers or NCPU))),
           "-XX:CICompilerCount=2", "-XX:TieredStopAtLevel=1" if simulate is None and False else "-XX:+TieredCompilation",
           # the queue of unexplored states stays in memory: the disk-backed default fails in this TLC build once it starts writing
           # ("when writing the disk (StatePoolWriter.run): ... this.elems is null") on the larger generator runs
           "-Dtlc2.tool.queue.IStateQueue=MemStateQueue",
           "-Djava.io.tmpdir=" + d,          # TLC leaves an empty tlc-<n> directory per run in the JVM's temporary directory
           "-cp", JAR, "tlc2.TLC",
           "-metadir", meta, "-config", cfg, "-noGenerateSpecTE"]
    if workers is None:
        workers = NCPU
    if simulate is not None:
        cmd += ["-workers", "1" if workers == 1 else str(workers)]
        cmd += ["-simulate", "num=%d" % simulate]
        if depth:
            cmd += ["-depth", str(depth)]
        if tseed is not None:
            cmd += ["-seed", str(tseed)]
    else:
        cmd += ["-workers", str(workers)]
    if not deadlock:
        cmd += ["-deadlock"]
    if coverage:
        cmd += ["-coverage", "1"]
    cmd += [os.path.join(d, module + ".tla")]
    r = TlcResult()
    t0 = time.time()
    try:
        p = subprocess.run(cmd, cwd=d, stdout=subprocess.PIPE, stderr=subprocess.STDOUT, timeout=timeout,
                           text=True, errors="replace")
    except subprocess.TimeoutExpired as e:
        subprocess.run(["pkill", "-f", "tlc2.TL[C].*" + re.escape(d)], check=False)
        raise InfraError("TLC timeout after %ss on %s" % (timeout, name))
    r.wall = time.time() - t0
    r.rc = p.returncode
    r.out = p.stdout
    for line in p.stdout.splitlines():
        if collect:
            m = _TLA_STR.match(line)
            if m:
                tag, payload = m.group(1), _unescape_tla(m.group(2))
                try:
                    val = json.loads(payload)
                except Exception:
                    val = payload
                if tag == "TRACE":
                    r.traces.append(val)
                else:
                    r.tagged.setdefault(tag, []).append(val)
                continue
        m = re.search(r"(\d+) states generated, (\d+) distinct states found", line)
        if m:
            r.generated, r.distinct = int(m.group(1)), int(m.group(2))
        m = re.search(r"The depth of the complete state graph search is (\d+)", line)
        if m:
            r.depth = int(m.group(1))
        m = re.search(r"Invariant (\S+) is violated", line)
        if m:
            r.violated = m.group(1)
        m = re.search(r"Action property (\S+) is violated|Temporal properties were violated", line)
        if m:
            r.violated = m.group(1) or "temporal"
        if "Error:" in line and r.error is None:
            r.error = line.strip()
        if coverage:
            m = re.match(r"^<(\w+) line .*>: (\d+):(\d+)$", line.strip())
            if m and m.group(2) == "0" and m.group(3) == "0":
                r.coverage_zero.append(m.group(1))
    if simulate is not None and r.generated == 0:
        m = re.findall(r"(\d+) states checked", p.stdout)
        if m:
            r.generated = int(m[-1])
            r.distinct = r.generated
    if not keep_out:
        shutil.rmtree(d, ignore_errors=True)
    if r.rc not in (0, 10, 11, 12, 13):
        # simulation mode ends with rc 0 when num reached; anything else is infra trouble
        raise InfraError("TLC failed rc=%s on %s: %s\n%s" % (r.rc, name, r.error, "\n".join(p.stdout.splitlines()[-25:])))
    return r


def tlc_parallel(jobs, par=None):
    """jobs: list of (label, kwargs for run_tlc). Runs them concurrently; returns {label: TlcResult}."""
    from concurrent.futures import ThreadPoolExecutor
    par = par or max(1, NCPU // 4)
    res = {}

    def one(job):
        label, kw = job
        kw = dict(kw)
        kw.setdefault("workers", 4)
        return label, run_tlc(**kw)
    with ThreadPoolExecutor(max_workers=par) as ex:
        for label, r in ex.map(one, jobs):
            res[label] = r
    return res


def check_records(module, consts, recs, spec="CheckSpec", chunks=None, timeout=2400, name=None, extra_files=None):
    """Validate records (list of dicts, produced by the real code) with the ASSUME-based checker module `module`
    (see spec/FragCheck.tla). Returns (n_checked, [(index, problems)], [TlcResult])."""
    from concurrent.futures import ThreadPoolExecutor
    if not recs:
        return 0, [], []
    # at most 2500 records per TLC run (a run judging 7000 fragmentation records took more than 15 minutes on a loaded machine)
    chunks = chunks or max(min(NCPU, max(1, len(recs) // 200)), (len(recs) + 2499) // 2500)
    per = (len(recs) + chunks - 1) // chunks
    jobs = []
    for c in range(chunks):
        part = recs[c * per:(c + 1) * per]
        if not part:
            continue
        path = write_input("%s-%s-%d.ndjson" % (name or module, os.getpid(), c), part)
        cfg = "SPECIFICATION %s\nCONSTANTS\n%s\n RecFile = \"%s\"\n" % (spec, consts, path)
        jobs.append((c * per, dict(module=module, cfg_text=cfg, name="%s-%d" % (name or module, c), workers=1,
                                   deadlock=False, timeout=timeout, extra_files=extra_files)))
    bad, results, checked = [], [], 0

    def one(job):
        base, kw = job
        return base, run_tlc(**kw)
    with ThreadPoolExecutor(max_workers=NCPU) as ex:
        for base, r in ex.map(one, jobs):
            need_ok(r, "record validation " + (name or module))
            results.append(r)
            n = r.tagged.get("CHECKED", [{}])[0].get("n")
            if n is None:
                raise InfraError("record validation printed no CHECKED line\n" + r.out[-2000:])
            checked += n
            for b in r.tagged.get("BAD", []):
                bad.append((base + b["i"] - 1, b["problems"]))
    if checked != len(recs):
        raise InfraError("record validation checked %d of %d records" % (checked, len(recs)))
    return checked, bad, results


def validate_traces(module, consts, traces, invariants=(), spec="TraceSpec", chunks=None, timeout=900, name=None, extra_files=None):
    """Trace validation (code -> spec). traces: list of JSON-able executions recorded from the real code; `module` follows the
    pattern of spec/TcpclTrace.tla (TraceInit picks tr, Accept prints ACCEPTED, Reject prints REJECTED with position and state).
    Returns (accepted_count, rejected [(index, info)], invariant_violations [(index, invariant)], [TlcResult])."""
    from concurrent.futures import ThreadPoolExecutor
    if not traces:
        return 0, [], [], []
    chunks = chunks or min(NCPU, max(1, len(traces) // 40))
    per = (len(traces) + chunks - 1) // chunks

    def one(c):
        idxs = list(range(c * per, min(len(traces), (c + 1) * per)))
        acc, rej, inv, results = set(), [], [], []
        for _ in range(8):
            if not idxs:
                break
            path = write_input("%s-%s-%d.ndjson" % (name or module, os.getpid(), c), [traces[i] for i in idxs])
            cfg = "SPECIFICATION %s\nCONSTANTS\n%s\n TraceFile = \"%s\"\n" % (spec, consts, path)
            if invariants:
                cfg += "INVARIANTS " + " ".join(invariants) + "\n"
            r = run_tlc(module=module, cfg_text=cfg, name="%s-%d" % (name or module, c), workers=1, deadlock=False,
                        timeout=timeout, extra_files=extra_files)
            results.append(r)
            if r.rc == 12 and r.violated:
                m = re.findall(r"^/\\ tr = (\d+)", r.out, flags=re.M)
                if not m:
                    raise InfraError("invariant violated during trace validation but trace index not found\n" + r.out[-1500:])
                k = int(m[-1]) - 1
                inv.append((idxs[k], r.violated))
                idxs = idxs[:k] + idxs[k + 1:]
                continue
            need_ok(r, "trace validation " + (name or module))
            for a in r.tagged.get("ACCEPTED", []):
                acc.add(idxs[a["tr"] - 1])
            for j in r.tagged.get("REJECTED", []):
                rej.append((idxs[j["tr"] - 1], j))
            missing = [i for i in idxs if i not in acc and i not in {x for x, _ in rej}]
            if missing:
                raise InfraError("trace validation: %d traces neither accepted nor rejected" % len(missing))
            break
        return acc, rej, inv, results
    accepted, rejected, invs, results = set(), [], [], []
    with ThreadPoolExecutor(max_workers=NCPU) as ex:
        for acc, rej, inv, res in ex.map(one, range(chunks)):
            accepted |= acc
            rejected += rej
            invs += inv
            results += res
    return len(accepted), rejected, invs, results


def read_ndjson(path):
    out = []
    with open(path) as fh:
        for line in fh:
            line = line.strip()
            if line:
                out.append(json.loads(line))
    return out


def need_ok(r, what):
    """A TLC run on the *model* that fails is a spec problem (infra), never a code violation."""
    if not r.ok:
        raise InfraError("TLC run '%s' did not pass (rc=%s, violated=%s, error=%s)\n%s" % (
            what, r.rc, r.violated, r.error, "\n".join(r.out.splitlines()[-40:])))
    return r


# --------------------------------------------------------------------------------------------
# go test with overlay
# --------------------------------------------------------------------------------------------

def go_env():
    e = dict(os.environ)
    e.update({"GOPROXY": "off", "GOSUMDB": "off", "GOTOOLCHAIN": "local", "GOFLAGS": "-mod=mod",
              "CGO_ENABLED": e.get("CGO_ENABLED", "1")})
    return e


def go_test(pkg, files, run, env=None, timeout=600, race=False, name=None, extra_args=()):
    """Compile harness files *inside* /repo/<pkg> via -overlay and run test `run`.

    files: list of paths relative to /verif/harness (package clause is rewritten to match pkg).
    Returns (rc, stdout, records) where records are the NDJSON lines the harness wrote to $VERIF_OUT.
    """
    name = name or run
    d = scratch("go-" + re.sub(r"\W+", "_", name))
    pkgdir = os.path.join(REPO, pkg)
    pkgname = _pkg_name(pkgdir)
    overlay = {"Replace": {}}
    for i, f in enumerate(files):
        src = os.path.join(HARNESS, f)
        txt = open(src).read()
        txt = re.sub(r"^package \w+", "package " + pkgname, txt, count=1, flags=re.M)
        gen = os.path.join(d, "%d_%s" % (i, os.path.basename(f)))
        with open(gen, "w") as fh:
            fh.write(txt)
        base = os.path.basename(f)
        if not base.endswith("_test.go"):
            base = base[:-3] + "_test.go"
        overlay["Replace"][os.path.join(pkgdir, "zz_verif_" + base)] = gen
    ov = os.path.join(d, "overlay.json")
    with open(ov, "w") as fh:
        json.dump(overlay, fh)
    outf = os.path.join(d, "out.ndjson")
    if os.path.exists(outf):
        os.unlink(outf)
    e = go_env()
    e["VERIF_OUT"] = outf
    e["VERIF_SEED"] = str(seed())
    e["VERIF_SCRATCH"] = scratch("run-" + re.sub(r"\W+", "_", name))
    e.update({k: str(v) for k, v in (env or {}).items()})
    cmd = ["go", "test", "-tags", "verif", "-overlay", ov, "-vet=off", "-count=1",
           "-timeout", "%ds" % timeout, "-run", "^" + run + "$"]
    if race:
        cmd.append("-race")
    cmd += list(extra_args)
    cmd.append("./" + pkg + "/")
    t0 = time.time()
    try:
        p = subprocess.run(cmd, cwd=REPO, env=e, stdout=subprocess.PIPE, stderr=subprocess.STDOUT,
                           timeout=timeout + 120, text=True, errors="replace")
    except subprocess.TimeoutExpired:
        raise InfraError("go test timeout: %s" % name)
    recs = []
    if os.path.exists(outf):
        with open(outf) as fh:
            for line in fh:
                line = line.strip()
                if line:
                    try:
                        recs.append(json.loads(line))
                    except Exception:
                        pass
    return p.returncode, p.stdout, recs


def _pkg_name(pkgdir):
    for f in sorted(os.listdir(pkgdir)):
        if f.endswith(".go") and not f.endswith("_test.go"):
            for line in open(os.path.join(pkgdir, f)):
                m = re.match(r"^package (\w+)", line)
                if m:
                    return m.group(1)
    raise InfraError("no package clause in " + pkgdir)


def write_input(name, items):
    """Write a list of JSON-able items as NDJSON into scratch; return path."""
    p = os.path.join(scratch("in"), name)
    with open(p, "w") as fh:
        for it in items:
            fh.write(json.dumps(it, separators=(",", ":")) + "\n")
    return p


# --------------------------------------------------------------------------------------------
# Known findings
# --------------------------------------------------------------------------------------------

def known_findings():
    """known: property=C06 key=<key> <desc>   |   fixed: property=C11 <commit> <desc>"""
    res = {}
    p = os.path.join(ROOT, "known_findings.txt")
    if not os.path.exists(p):
        return res
    for line in open(p):
        line = line.strip()
        m = re.match(r"^known:\s+property=(\S+)\s+key=(\S+)\s+(.*)$", line)
        if m:
            res[(m.group(1), m.group(2))] = m.group(3)
    return res


# --------------------------------------------------------------------------------------------
# A check run: accumulates coverage, violations, writes evidence, decides exit code
# --------------------------------------------------------------------------------------------

class Check:
    def __init__(self, pid, tier, level, growth=False):
        # growth=True: a specification beyond the listed properties; divergences are reported as such (no property id, results
        # under /verif/growth/), never as a violation of a listed property
        self.growth = growth
        self.pid = pid
        self.tier = tier
        self.level = level
        self.t0 = time.time()
        self.cov = {"states": 0, "transitions": 0, "traces_validated_against_impl": 0, "samples": [],
                    "evaluations": 0, "distinct_nontrivial": 0, "rule": "", "tlc_runs": [], "impl_runs": [],
                    "exhaustive": False}
        self.assumptions = []
        self.violations = []     # dicts with key, desc, replay
        self.known_hit = {}
        self.known = known_findings()
        self.notes = []
        os.makedirs(OUT, exist_ok=True)
        os.makedirs(EVID, exist_ok=True)

    # -- model side
    def add_tlc(self, label, r, extra=None):
        self.cov["states"] += r.distinct
        self.cov["transitions"] += r.generated
        rec = {"config": label, "distinct_states": r.distinct, "states_generated": r.generated,
               "depth": r.depth, "wall_s": round(r.wall, 2), "behaviours_emitted": len(r.traces)}
        if extra:
            rec.update(extra)
        self.cov["tlc_runs"].append(rec)

    # -- implementation side
    def add_impl(self, label, recs, rc, out):
        """Digest harness records. Returns dict of stats. Raises InfraError if the harness did not finish."""
        stats = {}
        done = False
        for r in recs:
            k = r.get("k")
            if k == "stat":
                stats[r["name"]] = stats.get(r["name"], 0) + r["n"]
            elif k == "sample":
                if len(self.cov["samples"]) < 6:
                    self.cov["samples"].append(r.get("v"))
            elif k == "viol":
                self.violation(r["key"], r.get("desc", ""), r.get("replay"))
            elif k == "note":
                self.notes.append(r.get("v"))
            elif k == "infra":
                raise InfraError("harness %s: %s" % (label, r.get("v")))
            elif k == "done":
                done = True
        if not done:
            raise InfraError("harness %s did not complete (rc=%s)\n%s" % (label, rc, "\n".join(out.splitlines()[-40:])))
        if rc != 0:
            raise InfraError("harness %s go test failed rc=%s\n%s" % (label, rc, "\n".join(out.splitlines()[-40:])))
        self.cov["impl_runs"].append({"harness": label, **stats})
        return stats

    def violation(self, key, desc, replay=None):
        kk = (self.pid, key)
        if kk in self.known:
            if key not in self.known_hit:
                self.known_hit[key] = {"desc": self.known[kk], "count": 0}
            self.known_hit[key]["count"] += 1
            return
        for v in self.violations:
            if v["key"] == key:
                v["count"] += 1
                return
        self.violations.append({"key": key, "desc": desc, "replay": replay, "count": 1})

    def finish(self):
        wall = time.time() - self.t0
        if not self.cov["samples"]:
            self.cov["samples"] = ["(no sample recorded)"]
        self.cov["known_findings_hit"] = self.known_hit
        self.cov["notes"] = self.notes[:20]
        for key, kf in self.known_hit.items():
            print("KNOWN-FINDING: property=%s %s (key=%s, %d occurrences)" % (self.pid, kf["desc"], key, kf["count"]))
        rc = 0
        vrecs = []
        for i, v in enumerate(self.violations):
            path = os.path.join(OUT, "%s-%s-%d.json" % (self.pid, re.sub(r"[^\w.-]+", "_", v["key"])[:80], seed()))
            with open(path, "w") as fh:
                json.dump({"property": self.pid, "key": v["key"], "desc": v["desc"], "replay": v["replay"],
                           "tier": self.tier, "seed": seed(), "count": v["count"]}, fh, indent=1)
            print(("DIVERGENCE growth=%s replay=%s" if self.growth else "VIOLATION property=%s replay=%s") % (self.pid, path))
            print("  key=%s count=%d: %s" % (v["key"], v["count"], v["desc"]))
            vrecs.append({"key": v["key"], "desc": v["desc"], "count": v["count"], "replay": path})
            rc = 1
        self.cov["violation_details"] = vrecs
        ev = {"property_id": self.pid, "tier": self.tier, "seed": seed(), "level": self.level,
              "coverage": self.cov, "assumptions": self.assumptions, "wall_s": round(wall, 2),
              "violations": len(self.violations)}
        evdir = os.path.join(ROOT, "growth") if self.growth else EVID
        os.makedirs(evdir, exist_ok=True)
        with open(os.path.join(evdir, self.pid + ".json"), "w") as fh:
            json.dump(ev, fh, indent=1, default=str)
        if rc == 0:
            print("OK property=%s tier=%s seed=%d states=%d impl_traces=%d wall=%.1fs" % (
                self.pid, self.tier, seed(), self.cov["states"], self.cov["traces_validated_against_impl"], wall))
        return rc


def _crash_excerpt(out):
    lines = out.splitlines()
    for i, l in enumerate(lines):
        if l.startswith("panic:") or l.startswith("fatal error:"):
            return "\n".join(lines[i:i + 14])
    return None


def _crash_site(exc):
    """Short name of the first function of the crashing goroutine that is not part of the Go runtime: tells call sites apart."""
    for l in (exc or "").splitlines():
        m = re.match(r"^([A-Za-z0-9_./\-]+\.[A-Za-z0-9_(*).]+)\(", l)
        if m and not m.group(1).startswith("runtime.") and not m.group(1).startswith("panic"):
            return m.group(1).rsplit("/", 1)[-1]
    return "unknown"


def _panic_in_code_under_test(exc):
    """True if the first source line of the crash excerpt (the frame that panicked) lies in the repository, not in a harness file."""
    for l in exc.splitlines():
        m = re.match(r"^\s+(/\S+\.go):\d+", l)
        if m:
            f = m.group(1)
            if "/runtime/" in f or f.startswith("/usr/lib/go") or "/opt/veriftools/go" in f:
                continue
            return f.startswith(REPO + "/") and "zz_verif_" not in f
    return False


def run_harness(chk, label, pkg, files, run, env=None, timeout=900, race=False, crash_key=None, max_rounds=6):
    """go_test + digestion. If the test binary dies from a panic / runtime fatal error in the code under test
    (other goroutine, cannot be recovered in-process), the in-flight cases (begin without end) are re-run one by
    one in a fresh process to find the culprit; a confirmed crash is a violation with key crash_key, and the rest
    of the input is then examined with the culprits skipped."""
    env = dict(env or {})
    skip = []
    for _ in range(max_rounds):
        if skip:
            env["VERIF_SKIP"] = ",".join(str(i) for i in skip)
        rc, out, recs = go_test(pkg, files, run, env=env, timeout=timeout, race=race, name=label)
        if any(r.get("k") == "done" for r in recs):
            return chk.add_impl(label, recs, rc, out)
        exc = _crash_excerpt(out)
        if exc is None or crash_key is None:
            raise InfraError("harness %s did not complete (rc=%s)\n%s" % (label, rc, "\n".join(out.splitlines()[-40:])))
        begun = [r["idx"] for r in recs if r.get("k") == "begin"]
        ended = set(r["idx"] for r in recs if r.get("k") == "end")
        cand = [i for i in begun if i not in ended]
        found = False
        for idx in cand[:40]:
            e2 = dict(env)
            e2["VERIF_ONLY"] = str(idx)
            e2.pop("VERIF_SKIP", None)
            rc2, out2, recs2 = go_test(pkg, files, run, env=e2, timeout=timeout, race=race, name=label + "-only")
            exc2 = _crash_excerpt(out2)
            viols2 = [r for r in recs2 if r.get("k") == "viol"]
            if any(r.get("k") == "done" for r in recs2) and viols2:
                # alone it does not kill the process but is judged a violation: that explains the crash under accumulated load
                for r in viols2:
                    chk.violation(r["key"], r.get("desc", ""), r.get("replay"))
                skip.append(idx)
                found = True
            elif not any(r.get("k") == "done" for r in recs2) and exc2:
                case = [r for r in recs2 if r.get("k") == "case"]
                chk.violation(crash_key + "/" + _crash_site(exc2), "process crashed: " + exc2.splitlines()[0],
                              {"harness": label, "case_index": idx, "case": case[:1], "input": env.get("VERIF_IN"), "crash": exc2})
                skip.append(idx)
                found = True
        if not found:
            # a crash that needs an interleaving: the in-flight cases alone did not reproduce it. If the panic is raised by the code
            # under test (first source frame of the panicking goroutine outside the harness) and the whole input crashes the same
            # way a second time, it is a defect of the code, reproducible by running the check again
            if _panic_in_code_under_test(exc):
                rc3, out3, recs3 = go_test(pkg, files, run, env=env, timeout=timeout, race=race, name=label + "-again")
                exc3 = _crash_excerpt(out3)
                if not any(r.get("k") == "done" for r in recs3) and exc3 and _panic_in_code_under_test(exc3) and \
                        exc3.splitlines()[0] == exc.splitlines()[0]:
                    chk.violation(crash_key + "/unattributed", "process crashed twice on this input, no single case reproduces it alone: " + exc.splitlines()[0],
                                  {"harness": label, "in_flight_cases": cand[:40], "input": env.get("VERIF_IN"), "crash": exc, "second_crash": exc3})
                    chk.cov["impl_runs"].append({"harness": label, "stopped_after_crashes": 2})
                    raise CrashFound(chk)
            raise InfraError("harness %s crashed but no single case reproduces it\n%s" % (label, exc))
    # every round found another crashing case: the class of defect is established, the remaining inputs were not all examined
    chk.notes.append("harness %s: stopped after %d process crashes, remaining inputs not examined" % (label, len(skip)))
    chk.cov["impl_runs"].append({"harness": label, "stopped_after_crashes": len(skip)})
    if chk.violations:
        raise CrashFound(chk)
    return {"stopped_after_crashes": len(skip)}


class CrashFound(Exception):
    """The code under test crashed the harness process (confirmed); the rest of the input was not examined: finish with what was found."""
    def __init__(self, chk):
        self.chk = chk


def main_wrapper(fn, pid, tier):
    try:
        rc = fn(tier)
    except CrashFound as e:
        e.chk.cov["exhaustive"] = False
        rc = e.chk.finish()
    except InfraError as e:
        print("ERROR property=%s (no verdict): %s" % (pid, e))
        rc = 2
    sys.exit(rc)
