------------------------------- MODULE Bbc -------------------------------
(* Bundle Broadcasting Connector (property C12, second half).                                  *)
(* Sender: a transmission is a train of link fragments [tid, seq, start, end, chunk];          *)
(* Receiver: table of incoming transmissions, one action per received fragment                 *)
(* (Connector.handleIncomingFragment); failure is signalled by broadcasting a failure fragment.*)
EXTENDS Integers, Sequences, FiniteSets, TLC, Json

CONSTANTS TrainLen,   \* [Tid -> 1..] number of fragments of the transmission with that id
          K,          \* number of fragments the channel delivers (any sequence over the alphabet)
          EmitMode

Tids == DOMAIN TrainLen
Frag(t, i) == [tid |-> t, seq |-> i % 16, start |-> i = 1, end |-> i = TrainLen[t], chunk |-> i]
Alphabet == UNION {{Frag(t, i) : i \in 1..TrainLen[t]} : t \in Tids} \* what the channel can deliver (in any order, repeatedly)
Whole(t) == [i \in 1..TrainLen[t] |-> i]

VARIABLES table,      \* [Tid -> [known: BOOLEAN, prev: 0..15, chunks: Seq(Nat)]]
          delivered,  \* sequence of [tid, chunks] handed up
          failures,   \* number of failure fragments broadcast
          n, hist
vars == <<table, delivered, failures, n, hist>>

Unknown == [known |-> FALSE, prev |-> 0, chunks |-> <<>>]

Init == table = [t \in Tids |-> Unknown] /\ delivered = <<>> /\ failures = 0 /\ n = 0 /\ hist = <<>>

Recv(f) ==
  /\ n < K
  /\ n' = n + 1
  /\ LET e == table[f.tid] IN
     IF ~e.known
     THEN IF ~f.start
          THEN /\ failures' = failures + 1 /\ UNCHANGED <<table, delivered>>          \* no start bit
          ELSE IF f.end
               THEN /\ delivered' = Append(delivered, [tid |-> f.tid, chunks |-> <<f.chunk>>])
                    /\ UNCHANGED <<table, failures>>                                  \* single fragment: finished at once
               ELSE /\ table' = [table EXCEPT ![f.tid] = [known |-> TRUE, prev |-> f.seq, chunks |-> <<f.chunk>>]]
                    /\ UNCHANGED <<delivered, failures>>
     ELSE IF f.seq # (e.prev + 1) % 16 \/ f.start
          THEN /\ table' = [table EXCEPT ![f.tid] = Unknown]                          \* out of order: forget, signal
               /\ failures' = failures + 1 /\ UNCHANGED delivered
          ELSE IF f.end
               THEN /\ delivered' = Append(delivered, [tid |-> f.tid, chunks |-> Append(e.chunks, f.chunk)])
                    /\ table' = [table EXCEPT ![f.tid] = Unknown]
                    /\ UNCHANGED failures
               ELSE /\ table' = [table EXCEPT ![f.tid] = [e EXCEPT !.prev = f.seq, !.chunks = Append(@, f.chunk)]]
                    /\ UNCHANGED <<delivered, failures>>
  /\ hist' = IF EmitMode = "none" THEN hist
             ELSE Append(hist, [tid |-> f.tid, i |-> f.chunk, exp |-> [delivered |-> delivered', failures |-> failures']])

Next == \E f \in Alphabet : Recv(f)
Spec == Init /\ [][Next]_vars

(* whatever arrives in whatever order: only complete original payloads are ever handed up *)
OnlyOriginals == \A i \in 1..Len(delivered) : delivered[i].chunks = Whole(delivered[i].tid)
(* a transmission in the table holds a proper prefix of its train *)
TablePrefix == \A t \in Tids : table[t].known =>
                  /\ Len(table[t].chunks) < TrainLen[t]
                  /\ table[t].chunks = SubSeq(Whole(t), 1, Len(table[t].chunks))
Emit == (EmitMode = "final" /\ n = K) => PrintT(<<"TRACE", ToJson([lens |-> TrainLen, h |-> hist])>>)

-----------------------------------------------------------------------------
(* Judging records of the real code.                                                                *)
(* t = "train": [mtu, plen, frags: Seq([size, seq, start, end, fail, tid]), concat_ok, tid]         *)
TrainProblems(r) ==
  LET fr == r.frags IN
  {p \in {"no-fragments", "fragment-larger-than-mtu", "sequence-not-consecutive", "start-flag-wrong", "end-flag-wrong",
          "transmission-id-differs", "fail-bit-set", "payload-not-preserved"} :
     CASE p = "no-fragments" -> Len(fr) = 0
       [] p = "fragment-larger-than-mtu" -> \E i \in 1..Len(fr) : fr[i].size > r.mtu
       [] p = "sequence-not-consecutive" -> \E i \in 1..Len(fr) : fr[i].seq # i % 16
       [] p = "start-flag-wrong" -> \E i \in 1..Len(fr) : fr[i].start # (i = 1)
       [] p = "end-flag-wrong" -> \E i \in 1..Len(fr) : fr[i].end # (i = Len(fr))
       [] p = "transmission-id-differs" -> \E i \in 1..Len(fr) : fr[i].tid # r.tid
       [] p = "fail-bit-set" -> \E i \in 1..Len(fr) : fr[i].fail
       [] p = "payload-not-preserved" -> ~r.concat_ok}

(* t = "faulty": a real train with one fault passed through the real receiver:                      *)
(*   [nfrags, fault: "none"|"drop"|"dup"|"swap", pos, failures, deliveries, all_identical]          *)
FaultProblems(r) ==
  {p \in {"different-bundle-delivered", "not-delivered-without-fault", "failure-signalled-without-fault",
          "delivered-twice-without-fault", "no-failure-signal"} :
     CASE p = "different-bundle-delivered" -> ~r.all_identical
       [] p = "not-delivered-without-fault" -> r.fault = "none" /\ r.deliveries = 0
       [] p = "delivered-twice-without-fault" -> r.fault = "none" /\ r.deliveries > 1
       [] p = "failure-signalled-without-fault" -> r.fault = "none" /\ r.failures > 0
       [] p = "no-failure-signal" -> r.fault # "none" /\ r.failures = 0}
=============================================================================
