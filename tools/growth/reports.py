"""Growth beyond the listed properties: status reports addressed to this node release delivered bundles (Core.tla, Inspect)."""
from props.corecommon import *


def run(tier):
    chk = Check("G-reports", tier, "model_checking", growth=True)
    quick = tier == "quick"
    chk.assumptions = ["InspectAllBundles is off (the daemon's default): only administrative records addressed to this node are inspected",
                       "the referenced bundles come from peers (their IDs are fixed by the sender)"]
    chk.cov["rule"] = ("Core.tla behaviours in which status reports about stored bundles arrive (delivered / forwarded, addressed to the local agent, "
                       "to an endpoint nobody registered, or in transit) are replayed on a real routing.Core; the store, transmissions and "
                       "deliveries are compared after every event.")
    P = ["p1", "p2"]
    fam = dict(peers=P, enabled=["Receive", "PeerUp", "PeerDown", "RetryTick", "Restart"],
               cat={"d1": attr("p1", "far", prev="p1"), "d2": attr("p1", "p2", prev="p1"),
                    "r1": attr("p2", "app", admin=True, about="d1", rkind="delivered"),
                    "r2": attr("p2", "app", admin=True, about="d1", rkind="forwarded"),
                    "r3": attr("p2", "noagent", admin=True, about="d2", rkind="delivered"),
                    "r4": attr("p2", "far", admin=True, about="d1", rkind="delivered")})

    def releases(h):
        return sum(1 for i, st in enumerate(h) if i > 0 and len(st["exp"]["stored"]) < len(h[i - 1]["exp"]["stored"]))
    plans = [dict(name="status-in", fam=fam, algo=a, budget=3, steps=4 if quick else 5, sim=(300, 9) if quick else (5000, 12), cap=250 if quick else 3000,
                  mc=(a == "epidemic"), prefer=releases) for a in (["epidemic", "spray"] if quick else ALGOS)]
    total, st = run_families(chk, "G-reports", plans, tier)
    if st.get("histories_ok", 0) == 0:
        raise InfraError("nothing replayed: %s" % st)
    chk.cov["traces_validated_against_impl"] = total
    chk.cov["evaluations"] = total
    chk.cov["distinct_nontrivial"] = total
    return chk.finish()
