#!/usr/bin/env python3
"""Regenerates /verif/MANIFEST.json from the table below (single source of truth)."""
import json, os, sys
ROOT = os.path.dirname(os.path.dirname(os.path.abspath(__file__)))

CHECKS = {
    "C16": dict(
        category="model_checking",
        text="ClaManager.tla (one action per public call / handler case of cla.Manager) is checked exhaustively by TLC for "
             "1-2 adapters x 1-2 instances, budgets 0..3, permanent or not; one behaviour per edge of the reduced state graph "
             "plus random deep behaviours are replayed on the real Manager with scripted adapters, comparing active set and "
             "Start/Close counts after every action. Right level: the property quantifies over histories of a small reactive "
             "state machine, which bounded model checking plus replay covers completely up to the bound.",
        design_ref="DESIGN.md section 6 C16",
        note="Trusted: TLC, the scripted mock adapters, the ticker hook (verif tag) delivering one retry tick per Tick action. "
             "Bounded: history length 6 (quick) / 8 (thorough) exhaustively, 14-24 random.",
        technique="TLA+ spec + TLC exhaustive check + replay of TLC behaviours on the real cla.Manager",
    ),
}

NOT_YET = "machinery for this property is not built yet in this revision (planned in DESIGN.md section 6)"


def main():
    props = [json.loads(l) for l in open(os.path.join(ROOT, "properties.jsonl"))]
    checks = []
    na = []
    for p in props:
        pid = p["id"]
        c = CHECKS.get(pid)
        if not c:
            na.append({"property_id": pid, "reason": NA.get(pid, NOT_YET)})
            continue
        checks.append({
            "property_id": pid,
            "quick_cmd": "bin/check %s quick" % pid,
            "thorough_cmd": "bin/check %s thorough" % pid,
            "evidence_file": "/verif/evidence/%s.json" % pid,
            "replay_cmd_template": "cat {path}",
            "engine": "tla-replay",
            "level_claimed": {"category": c["category"], "text": c["text"], "design_ref": c["design_ref"]},
            "level_note": c["note"],
            "technique": c["technique"],
        })
    m = {
        "version": 1,
        "setup_cmd": "bin/setup",
        "hooks": {
            "guard": "verif",
            "enable": "go test -tags verif -overlay <harness overlay> (harness sources under /verif/harness are compiled inside the repo's packages)",
            "baseline_off_cmd": "cd /repo && GOFLAGS=-mod=mod GOPROXY=off go test -vet=off -count=1 -timeout 25m ./...",
            "source_commits": HOOK_COMMITS,
            "add_only": True,
        },
        "engines": [{
            "name": "tla-replay", "path": "/verif/tools/vlib.py",
            "serves_properties": sorted(CHECKS),
            "kind_free_text": "TLA+ specifications under /verif/spec checked with TLC; TLC-generated behaviours replayed on the real code and "
                              "traces recorded from the real code validated by TLC, through in-package Go harnesses compiled with go test -overlay",
        }],
        "checks": checks,
        "notes": "See DESIGN.md. Exit codes: 0 held, 1 VIOLATION (replay file under /verif/out), 2 infrastructure error (no verdict).",
        "not_applicable": na,
    }
    with open(os.path.join(ROOT, "MANIFEST.json"), "w") as fh:
        json.dump(m, fh, indent=1)
    print("MANIFEST.json: %d checks, %d not_applicable" % (len(checks), len(na)))


NA = {}
HOOK_COMMITS = ["ba2cc1f"]

if __name__ == "__main__":
    main()
