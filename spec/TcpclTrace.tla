---------------------------- MODULE TcpclTrace ----------------------------
(* Trace validation: executions of two real TransferManagers joined by a recording relay       *)
(* (harness/tcpcl/c11.go) are checked to be behaviours of Tcpcl.tla, reusing its actions.       *)
(* One line per execution: [cfg |-> configuration, ev |-> sequence of events].                  *)
(* Events (recorded under one mutex, in observation order):                                     *)
(*   seg(id,len,start,end)  the relay took a segment from the sender = SenderNext(id) with       *)
(*                          exactly these fields                                                 *)
(*   peer                   the relay handed the oldest segment to the peer = PeerRecv           *)
(*   ack(id,n)              the relay passed an XFER_ACK to the sender      = MainAck           *)
(*   refuse(id)             the relay passed an XFER_REFUSE to the sender   = MainAck           *)
(*   deliver(id,same)       the peer handed a bundle up                                          *)
(*   ret(id,ok)             Send returned (MainLen / Timeout happen silently before)            *)
(*   end                    quiescence: everything owed must have happened                      *)
EXTENDS Tcpcl, Json

CONSTANT TraceFile
Traces == ndJsonDeserialize(TraceFile)

VARIABLES tr, l, seenDeliver, seenRet
tvars == <<tr, l, seenDeliver, seenRet>>

Events == Traces[tr].ev
Ev == Events[l]

TraceInit ==
  /\ tr \in 1..Len(Traces)
  /\ l = 1
  /\ InitFor(Traces[tr].cfg)
  /\ seenDeliver = [t \in DOMAIN Traces[tr].cfg.len |-> 0]
  /\ seenRet = [t \in DOMAIN Traces[tr].cfg.len |-> "none"]

IsEv(name) == l <= Len(Events) /\ Ev.e = name

TSeg ==
  /\ IsEv("seg")
  /\ Ev.id \in T
  /\ SenderNext(Ev.id)
  /\ wire'[Len(wire')] = [id |-> Ev.id, len |-> Ev.len, start |-> Ev.start, end |-> Ev.end]
  /\ UNCHANGED <<seenDeliver, seenRet>>

TPeer ==
  /\ IsEv("peer")
  /\ PeerRecv
  /\ UNCHANGED <<seenDeliver, seenRet>>

TAck ==
  /\ IsEv("ack")
  /\ acks # <<>> /\ Head(acks) = [id |-> Ev.id, kind |-> "ack", n |-> Ev.n]
  /\ MainAck
  /\ UNCHANGED <<seenDeliver, seenRet>>

TRefuse ==
  /\ IsEv("refuse")
  /\ acks # <<>> /\ Head(acks).id = Ev.id /\ Head(acks).kind = "refuse"
  /\ MainAck
  /\ UNCHANGED <<seenDeliver, seenRet>>

TDeliver ==
  /\ IsEv("deliver")
  /\ Ev.id \in T /\ Ev.same
  /\ rDelivered[Ev.id] = 1 /\ seenDeliver[Ev.id] = 0
  /\ seenDeliver' = [seenDeliver EXCEPT ![Ev.id] = 1]
  /\ UNCHANGED <<vars, seenRet>>

(* result the specification allows for transfer t now, after the silent steps of Send's main loop *)
Allowed(t) ==
  IF ret[t] # "none" THEN {ret[t]}
  ELSE IF sDone[t] /\ Decide(t, mAck[t], TRUE) = "ok" THEN {"ok"}
  ELSE IF Fault[t] # "none" \/ closed THEN {"err"}
  ELSE {}

TRet ==
  /\ IsEv("ret")
  /\ Ev.id \in T /\ seenRet[Ev.id] = "none"
  /\ (IF Ev.ok THEN "ok" ELSE "err") \in Allowed(Ev.id)
  /\ seenRet' = [seenRet EXCEPT ![Ev.id] = IF Ev.ok THEN "ok" ELSE "err"]
  /\ ret' = [ret EXCEPT ![Ev.id] = seenRet'[Ev.id]]
  /\ sStop' = [sStop EXCEPT ![Ev.id] = TRUE]
  /\ UNCHANGED <<cfg, sSent, sSegs, sDone, wire, rLen, rEnded, rDelivered, rSegs, closed, acks, mAck, mLenKnown, seenDeliver>>

TEnd ==
  /\ IsEv("end")
  /\ \A t \in T : /\ seenRet[t] # "none"
                  /\ seenDeliver[t] = rDelivered[t]
                  /\ (Fault[t] = "none" /\ ~closed) => (seenRet[t] = "ok" /\ seenDeliver[t] = 1)
  /\ UNCHANGED <<vars, seenDeliver, seenRet>>

Step == (TSeg \/ TPeer \/ TAck \/ TRefuse \/ TDeliver \/ TRet \/ TEnd) /\ l' = l + 1 /\ tr' = tr

Accept ==
  /\ l = Len(Events) + 1
  /\ PrintT(<<"ACCEPTED", ToJson([tr |-> tr])>>)
  /\ l' = l + 1 /\ UNCHANGED <<vars, tr, seenDeliver, seenRet>>

Reject ==
  /\ l <= Len(Events)
  /\ ~ENABLED Step
  /\ PrintT(<<"REJECTED", ToJson([tr |-> tr, at |-> l, event |-> Ev,
                                   state |-> [sSent |-> sSent, sSegs |-> sSegs, sDone |-> sDone, rLen |-> rLen, rEnded |-> rEnded,
                                              rDelivered |-> rDelivered, acks |-> acks, mAck |-> mAck, ret |-> ret, closed |-> closed]])>>)
  /\ l' = Len(Events) + 2 /\ UNCHANGED <<vars, tr, seenDeliver, seenRet>>

TraceNext == Step \/ Accept \/ Reject
TraceSpec == TraceInit /\ [][TraceNext]_<<vars, tvars>>

\* the design invariants are evaluated in every state of every recorded execution as well
TraceInvariants == SegmentSize /\ SuccessMeansDelivered /\ DeliveredOnce
=============================================================================
