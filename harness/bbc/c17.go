package bbc

// C17 (BBC fragment headers)

import (
	"bytes"
	"encoding/json"
	"fmt"
	"os"
	"testing"
)

type vzCase struct {
	Tid   int   `json:"tid"`
	Seq   int   `json:"seq"`
	Start bool  `json:"start"`
	End   bool  `json:"end"`
	Fail  bool  `json:"fail"`
	PLen  int   `json:"plen"`
	Bytes []int `json:"bytes"`
}

func TestVerifC17Bbc(t *testing.T) {
	n := 0
	if err := vhLines(os.Getenv("VERIF_IN"), func(raw []byte) {
		var c vzCase
		if err := json.Unmarshal(raw, &c); err != nil {
			t.Fatal(err)
		}
		viol := func(key, desc string) { vhViol("aux/bbc/"+key, desc, vhRec{"case": json.RawMessage(raw)}) }
		spec := make([]byte, len(c.Bytes))
		for i, x := range c.Bytes {
			spec[i] = byte(x)
		}
		f := NewFragment(byte(c.Tid), byte(c.Seq), c.Start, c.End, c.Fail, bytes.Repeat([]byte{'a'}, c.PLen))
		real := f.Bytes()
		if !bytes.Equal(real, spec) {
			viol("layout", fmt.Sprintf("header bytes %x, layout %x", real, spec))
			return
		}
		g, err := ParseFragment(real)
		if err != nil {
			viol("decode-error", err.Error())
			return
		}
		if g.TransmissionID() != byte(c.Tid) || g.SequenceNumber() != byte(c.Seq) || g.StartBit() != c.Start || g.EndBit() != c.End || g.FailBit() != c.Fail || len(g.Payload) != c.PLen {
			viol("round-trip", fmt.Sprintf("decoded %v from %x", g, real))
		}
		n++
	}); err != nil {
		t.Fatal(err)
	}
	vhStat("values_valid", n)
	vhDone()
}
