package discovery

import (
	"encoding/json"
	"fmt"
	"os"
	"testing"
)

func TestVerifC04Discovery(t *testing.T) {
	n := 0
	if err := vhLines(os.Getenv("VERIF_IN"), func(raw []byte) {
		var ms vhMutantSet
		if err := json.Unmarshal(raw, &ms); err != nil {
			t.Fatal(err)
		}
		ins, notes := ms.inputs()
		for i, in := range ins {
			in := in
			n++
			if p := vhGuard(len(in), func() { _, _ = UnmarshalAnnouncements(in) }); p != "" {
				vhViol("robust/announcements/"+vhClass(p), fmt.Sprintf("UnmarshalAnnouncements, %s: %s", notes[i], p), vhRec{"input": fmt.Sprintf("%x", in), "note": notes[i]})
			}
		}
	}); err != nil {
		t.Fatal(err)
	}
	vhStat("inputs", n)
	vhDone()
}
