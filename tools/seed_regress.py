#!/usr/bin/env python3
"""Run every seeded change against the quick check of its property (in a scratch worktree) and print one line each.
usage: tools/seed_regress.py [id-prefix ...]"""
import glob, json, os, subprocess, sys, time
root = os.path.dirname(os.path.dirname(os.path.abspath(__file__)))
sel = sys.argv[1:]
tot = caught = 0
for d in sorted(glob.glob(os.path.join(root, "seeded", "S-C*"))):
    sid = os.path.basename(d)
    if sel and not any(sid.startswith(p) for p in sel):
        continue
    prop = json.load(open(os.path.join(d, "meta.json")))["property"]
    t0 = time.time()
    p = subprocess.run([sys.executable, os.path.join(root, "tools", "seed_eval.py"), "run", d, prop, "quick"], stdout=subprocess.PIPE, stderr=subprocess.STDOUT, universal_newlines=True)
    lines = p.stdout.splitlines()
    rc = next((l for l in lines if l.startswith("check ")), "?")
    keys = [l.strip().split(" ")[0] for l in lines if l.strip().startswith("key=")]
    tot += 1
    ok = " rc=1 " in rc
    caught += ok
    print("%s %s %s %s" % (sid, "CAUGHT" if ok else "MISSED", rc, " ".join(keys[:3])), flush=True)
print("caught %d of %d" % (caught, tot))
