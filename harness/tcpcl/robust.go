package utils

import (
	"fmt"
	"io"
	"testing"
	"time"

	"github.com/dtn7/dtn7-go/pkg/cla/tcpclv4/internal/msgs"
)

// C04 (session parameters): segment sizes a peer may declare in SESS_INIT, on the sending side.
func TestVerifC04Negotiation(t *testing.T) {
	n := 0
	bounds := []uint64{0, 1, 23, 24, 1 << 16, 1<<31 - 1, 1 << 31, 1<<32 - 1, 1 << 62, 1 << 63, 1<<64 - 1}
	for _, mru := range bounds {
		mru := mru
		// the segment function on a 100 byte stream
		n++
		p := vhGuard(100, func() {
			tr, w := NewOutgoingTransfer(1)
			go func() {
				pw := w.(*io.PipeWriter)
				_, _ = pw.Write(make([]byte, 100))
				_ = pw.Close()
			}()
			total, segs := 0, 0
			for {
				dtm, err := tr.NextSegment(mru)
				if err != nil {
					break
				}
				segs++
				total += len(dtm.Data)
				if uint64(len(dtm.Data)) > mru {
					panic(fmt.Sprintf("segment of %d bytes for a segment MRU of %d", len(dtm.Data), mru))
				}
				if dtm.Flags&msgs.SegmentEnd != 0 {
					break
				}
				if segs > 1000 {
					panic(fmt.Sprintf("more than 1000 segments for 100 bytes with a segment MRU of %d (no progress)", mru))
				}
			}
			if mru > 0 && total != 100 {
				panic(fmt.Sprintf("segments carry %d of 100 bytes", total))
			}
		})
		if p != "" {
			vhViol("robust/negotiation/next-segment/"+vhClass(p), fmt.Sprintf("peer-declared segment MRU %d: %s", mru, p), vhRec{"segment_mru": fmt.Sprint(mru)})
		}
		// a whole Send through a TransferManager configured with that size; the peer acknowledges everything
		n++
		p = vhGuard(100, func() {
			in, out := make(chan msgs.Message, 4096), make(chan msgs.Message, 4096)
			tm := NewTransferManager(in, out, mru)
			defer tm.Close()
			stop := make(chan struct{})
			defer close(stop)
			go func() {
				acked := uint64(0)
				for {
					select {
					case <-stop:
						return
					case m := <-out:
						if dtm, ok := m.(*msgs.DataTransmissionMessage); ok {
							acked += uint64(len(dtm.Data))
							in <- msgs.NewDataAcknowledgementMessage(dtm.Flags, dtm.TransferId, acked)
						}
					}
				}
			}()
			res := make(chan error, 1)
			go func() { res <- tm.Send(vtBundle(10, 3)) }()
			select {
			case err := <-res:
				if mru == 0 && err == nil {
					panic("Send reports success with a segment MRU of zero")
				}
			case <-time.After(4 * time.Second):
				panic("Send neither succeeds nor fails within 4 s")
			}
		})
		if p != "" {
			vhViol("robust/negotiation/send/"+vhClass(p), fmt.Sprintf("peer-declared segment MRU %d: %s", mru, p), vhRec{"segment_mru": fmt.Sprint(mru)})
		}
	}
	// the receiving side: data segments in every flag combination and order for transfers it has not seen (a peer may start in the
	// middle, repeat an END, send data after an END), with empty and non-empty data
	for _, flags := range [][]msgs.SegmentFlags{{0}, {msgs.SegmentEnd}, {msgs.SegmentStart}, {msgs.SegmentStart | msgs.SegmentEnd}, {0, 0}, {0, msgs.SegmentEnd},
		{msgs.SegmentEnd, msgs.SegmentEnd}, {msgs.SegmentStart, msgs.SegmentStart}, {msgs.SegmentStart, 0, msgs.SegmentEnd, 0}, {msgs.SegmentEnd, msgs.SegmentStart}} {
		for _, data := range [][]byte{{}, {1, 2, 3}} {
			flags, data := flags, data
			n++
			p := vhGuard(len(data)*len(flags), func() {
				ti := NewIncomingTransfer(77)
				for _, f := range flags {
					_, _ = ti.NextSegment(msgs.NewDataTransmissionMessage(f, 77, data))
					if ti.IsFinished() {
						_, _ = ti.ToBundle()
					}
				}
			})
			if p != "" {
				vhViol("robust/tcpcl/incoming-segment/"+vhClass(p), fmt.Sprintf("segments with flags %v for an unknown transfer: %s", flags, p), vhRec{"flags": fmt.Sprint(flags)})
			}
		}
	}
	vhStat("inputs", n)
	vhDone()
}
