package agent

import (
	"bytes"
	"encoding/json"
	"fmt"
	"net/http"
	"net/http/httptest"
	"os"
	"strings"
	"testing"

	"github.com/gorilla/mux"
)

func TestVerifC04Agent(t *testing.T) {
	n := 0
	if err := vhLines(os.Getenv("VERIF_IN"), func(raw []byte) {
		var ms vhMutantSet
		if err := json.Unmarshal(raw, &ms); err != nil {
			t.Fatal(err)
		}
		ins, notes := ms.inputs()
		for i, in := range ins {
			in := in
			n++
			if p := vhGuard(len(in), func() { _, _ = unmarshalCbor(bytes.NewReader(in)) }); p != "" {
				vhViol("robust/wam/"+vhClass(p), fmt.Sprintf("WebSocket agent message decoder, %s: %s", notes[i], p), vhRec{"input": fmt.Sprintf("%x", in), "note": notes[i]})
			}
		}
	}); err != nil {
		t.Fatal(err)
	}
	// REST requests with hostile bodies
	r := mux.NewRouter()
	ra := NewRestAgent(r)
	srv := httptest.NewServer(r)
	defer srv.Close()
	go func() {
		for range ra.MessageSender() {
		}
	}()
	bodies := []string{``, `{`, `[]`, `{"uuid":1}`, `{"uuid":"x","arguments":[]}`, `{"endpoint_id":` + strings.Repeat("[", 10000) + `}`, `{"endpoint_id":"` + strings.Repeat("a", 70000) + `"}`,
		`{"uuid":"x","arguments":{"payload_block":"` + strings.Repeat("A", 70000) + `"}}`, "\x00\x01\x02"}
	for _, path := range []string{"register", "unregister", "fetch", "build"} {
		for _, body := range bodies {
			body, path := body, path
			n++
			p := vhGuard(len(body), func() {
				resp, err := http.Post(srv.URL+"/"+path, "application/json", strings.NewReader(body))
				if err == nil {
					resp.Body.Close()
				}
			})
			if p != "" {
				vhViol("robust/rest/"+vhClass(p), fmt.Sprintf("POST /%s with a hostile body: %s", path, p), vhRec{"path": path, "body": body[:minInt(len(body), 100)]})
			}
		}
	}
	vhStat("inputs", n)
	vhDone()
}

func minInt(a, b int) int {
	if a < b {
		return a
	}
	return b
}
