"""C12 MTCP and broadcast (BBC) links deliver exactly what was sent or report failure."""
import json, os
from vlib import *

COMMON = ["common/vh.go"]


def run(tier):
    chk = Check("C12", tier, "model_checking")
    quick = tier == "quick"
    chk.assumptions = ["MTCP server: real MTCPServer on loopback, raw writer playing the TLC-generated program (keep-alives at any gap, cut in the "
                       "frame head or body, clean close); completion is observed by the server closing its side",
                       "MTCP client: in-memory connection whose k-th write fails (deterministic); real TCP would hide the first failed write in kernel buffers",
                       "BBC receiver: fragments are fed to Connector.handleIncomingFragment in their wire form (ParseFragment(Bytes())), synchronously; "
                       "the read/write goroutines around it are exercised by the repository's own TestConnector",
                       "BBC faults are applied to trains produced by the real sender for real bundles (xz-compressed), modem MTUs 3..255"]
    chk.cov["rule"] = ("Mtcp.tla and Bbc.tla are model-checked; every edge of Mtcp.tla's reduced graph and all fragment sequences of length K over "
                       "two real trains (Bbc.tla) are replayed on the real server / receiver with the hand-up list and failure signals compared "
                       "after every step; real fragment trains and every single drop/duplicate/swap are recorded and judged by TLC "
                       "(Bbc!TrainProblems, Bbc!FaultProblems), client sends on a failing connection by Mtcp!ClientProblems.")
    nb, ops = (3, 5) if quick else (4, 7)
    mcfg = lambda mode, view: ("SPECIFICATION Spec\nCONSTANTS\n NB = %d\n MaxOps = %d\n EmitMode = \"%s\"\nINVARIANTS PrefixInOrder AllArrive Emit\n" % (nb, ops, mode)
                               + ("PROPERTIES Eventually\nVIEW View\n" if view else ""))
    trains = [([3, 2], 5), ([1, 4], 5), ([2, 2], 6)] if quick else [([3, 2], 6), ([1, 4], 6), ([2, 2], 7), ([17, 1], 4), ([5, 3], 5)]
    jobs = [("mtcp-mc", dict(module="Mtcp", cfg_text=mcfg("none", True), name="mtcp-mc", deadlock=False)),
            ("mtcp-gen", dict(module="Mtcp", cfg_text=mcfg("final", False), name="mtcp-gen", deadlock=False))]
    for i, (tl, k) in enumerate(trains):
        mc = {"MCBbc.tla": "---- MODULE MCBbc ----\nEXTENDS Bbc\nMCTrain == <<%s>>\n====\n" % ", ".join(map(str, tl))}
        bcfg = lambda mode: "SPECIFICATION Spec\nCONSTANTS\n TrainLen <- MCTrain\n K = %d\n EmitMode = \"%s\"\nINVARIANTS OnlyOriginals TablePrefix Emit\n" % (k, mode)
        jobs.append(("bbc-mc-%d" % i, dict(module="MCBbc", cfg_text=bcfg("none"), name="bbc-mc-%d" % i, extra_files=mc, deadlock=False)))
        jobs.append(("bbc-gen-%d" % i, dict(module="MCBbc", cfg_text=bcfg("final"), name="bbc-gen-%d" % i, extra_files=mc, deadlock=False)))
    res = tlc_parallel(jobs)
    chk.add_tlc("Mtcp exhaustive", need_ok(res["mtcp-mc"], "Mtcp exhaustive"))
    mg = need_ok(res["mtcp-gen"], "Mtcp generator")
    chk.add_tlc("Mtcp programs", mg)
    progs = []
    seen = set()
    for t in mg.traces:
        k = json.dumps(t, sort_keys=True)
        if k not in seen:
            seen.add(k)
            progs.append(t)
    bh = []
    for i, (tl, k) in enumerate(trains):
        chk.add_tlc("Bbc exhaustive %s K=%d" % (tl, k), need_ok(res["bbc-mc-%d" % i], "Bbc exhaustive"))
        g = need_ok(res["bbc-gen-%d" % i], "Bbc generator")
        chk.add_tlc("Bbc sequences %s K=%d" % (tl, k), g)
        bh += g.traces
    if not progs or not bh:
        raise InfraError("generators produced nothing")
    # MTCP
    inp = write_input("c12-mtcp.ndjson", progs)
    st = run_harness(chk, "mtcp server replay", "pkg/cla/mtcp", COMMON + ["mtcp/c12.go"], "TestVerifC12MtcpReplay", env={"VERIF_IN": inp, "VERIF_PAR": 16})
    if st.get("programs") != len(progs):
        raise InfraError("mtcp replay incomplete")
    recf = os.path.join(scratch("rec"), "c12-client.ndjson")
    run_harness(chk, "mtcp client on failing connection", "pkg/cla/mtcp", COMMON + ["mtcp/c12.go"], "TestVerifC12MtcpClient", env={"VERIF_REC": recf})
    recs = read_ndjson(recf)
    # BBC
    inp2 = write_input("c12-bbc.ndjson", bh)
    st2 = run_harness(chk, "bbc receiver replay", "pkg/cla/bbc", COMMON + ["bbc/c12.go"], "TestVerifC12BbcReplay", env={"VERIF_IN": inp2, "VERIF_PAR": 16})
    if st2.get("histories") != len(bh) or st2.get("deliveries", 0) == 0 or st2.get("failure_signals", 0) == 0:
        raise InfraError("bbc replay incomplete or vacuous: %s" % st2)
    recf2 = os.path.join(scratch("rec"), "c12-bbc.ndjson")
    run_harness(chk, "bbc trains and single faults", "pkg/cla/bbc", COMMON + ["bbc/c12.go"], "TestVerifC12BbcRecord",
                env={"VERIF_REC": recf2, "VERIF_TIER": tier, "VERIF_PAR": 16}, timeout=1500)
    recs += read_ndjson(recf2)
    n, bad, results = check_records("LinkCheck", "", recs, name="linkcheck")
    for r in results:
        chk.add_tlc("LinkCheck records", r)
    for idx, problems in bad:
        r = recs[idx]
        for p in problems:
            key = "link/%s/%s" % (r["t"], p)
            if r["t"] == "faulty":
                if r["fault"] == "drop" and r["pos"] == r["nfrags"]:
                    key += "/drop-last-fragment"
                elif r["fault"] == "dup" and r["nfrags"] == 1:
                    key += "/duplicate-single-fragment-transmission"
                else:
                    key += "/" + r["fault"]
            chk.violation(key, "record judged by LinkCheck.tla: " + json.dumps(r)[:500], r)
    chk.cov["traces_validated_against_impl"] = len(progs) + len(bh) + n
    chk.cov["evaluations"] = len(progs) + len(bh) + n
    chk.cov["distinct_nontrivial"] = len(progs) + len(bh) + len({json.dumps(r, sort_keys=True) for r in recs})
    chk.cov["records_judged_by_tlc"] = n
    chk.cov["samples"].append({"record": next((r for r in recs if r["t"] == "faulty" and r["fault"] == "swap"), None)})
    return chk.finish()
