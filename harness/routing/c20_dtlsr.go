package routing

// C20: routing tables computed by the real DTLSR for TLC-enumerated link-state graphs, and the replacement rule for
// link-state data under every arrival order.

import (
	"bytes"
	"encoding/json"
	"fmt"
	"github.com/dtn7/dtn7-go/pkg/cla"
	"github.com/dtn7/dtn7-go/pkg/storage"
	"io"
	"os"
	"path/filepath"
	"sort"
	"strings"
	"testing"
	"time"

	log "github.com/sirupsen/logrus"

	"github.com/dtn7/dtn7-go/pkg/bpv7"
)

type vdCase struct {
	T    string                       `json:"t"`
	Own  map[string]string            `json:"own"`
	Link map[string]map[string]string `json:"link"`
	Ups  []struct {
		Node string `json:"node"`
		Ts   int    `json:"ts"`
		Tag  string `json:"tag"`
	} `json:"ups"`
	Exp json.RawMessage `json:"exp"`
}

func vdEid(n string) bpv7.EndpointID { return bpv7.MustNewEndpointID("dtn://" + n + "/") }

func vdTime(state string, now bpv7.DtnTime) bpv7.DtnTime {
	switch state {
	case "live":
		return 0
	case "new":
		return now - bpv7.DtnTime(3600*1000) // lost one hour ago
	default:
		return now - bpv7.DtnTime(10*3600*1000) // lost ten hours ago
	}
}

// vdFeed hands link-state data of node id to the algorithm the way the Core does: a received bundle with a DTLSRBlock.
func vdFeed(d *DTLSR, c *Core, id string, ts bpv7.DtnTime, peers map[bpv7.EndpointID]bpv7.DtnTime, n int) error {
	blk := bpv7.NewDTLSRBlock(bpv7.DTLSRPeerData{ID: vdEid(id), Timestamp: ts, Peers: peers})
	b, err := bpv7.Builder().BundleCtrlFlags(bpv7.MustNotFragmented).Source(vdEid(id)).Destination(dtlsrBroadcastAddress).
		CreationTimestampTime(time.Now().Add(time.Duration(n) * time.Millisecond)).Lifetime("1h").PayloadBlock([]byte("lsa")).Canonical(blk).Build()
	if err != nil {
		return err
	}
	var buf bytes.Buffer
	if err := b.WriteBundle(&buf); err != nil {
		return err
	}
	pb, err := bpv7.ParseBundle(&buf)
	if err != nil {
		return err
	}
	d.NotifyNewBundle(BundleDescriptor{Id: pb.ID(), bndl: &pb, store: c.store, Constraints: map[Constraint]bool{}, Tags: map[Tag]struct{}{}})
	return nil
}

func TestVerifC20Dtlsr(t *testing.T) {
	log.SetOutput(io.Discard)
	var items [][]byte
	if err := vhLines(os.Getenv("VERIF_IN"), func(b []byte) { items = append(items, b) }); err != nil {
		t.Fatal(err)
	}
	dir := filepath.Join(vhScratch(), "dtlsr")
	_ = os.RemoveAll(dir)
	c, err := NewCore(dir, bpv7.MustNewEndpointID(vcNode), false, vcConf("dtlsr", 1), nil)
	if err != nil {
		t.Fatal(err)
	}
	defer c.Close()
	for _, j := range vcCronJobs {
		c.cron.Unregister(j)
	}
	ngraph, nupd, nroutes, ok := 0, 0, 0, 0
	for idx, item := range items {
		var cs vdCase
		if err := json.Unmarshal(item, &cs); err != nil {
			t.Fatal(err)
		}
		d := NewDTLSR(c, DTLSRConfig{RecomputeTime: "1000h", BroadcastTime: "1000h", PurgeTime: "1000h"})
		for _, j := range vcCronJobs {
			c.cron.Unregister(j)
		}
		now := bpv7.DtnTimeNow()
		if cs.T == "graph" {
			ngraph++
			var exp map[string][]string
			_ = json.Unmarshal(cs.Exp, &exp)
			// own links: appear (live), then mark lost ones with their loss time
			for n, st := range cs.Own {
				if st == "absent" {
					continue
				}
				p := &vcPeer{name: n, eid: vdEid(n)}
				d.ReportPeerAppeared(p)
				if st != "live" {
					d.ReportPeerDisappeared(p)
					d.dataMutex.Lock()
					d.peers.Peers[vdEid(n)] = vdTime(st, now) // the loss is moved into the past
					d.dataMutex.Unlock()
				} else if idx%2 == 1 {
					// every other case: the live neighbour was lost long ago and is back (before it was purged): live again, cost zero
					d.ReportPeerDisappeared(p)
					d.dataMutex.Lock()
					d.peers.Peers[vdEid(n)] = vdTime("old", now)
					d.dataMutex.Unlock()
					d.ReportPeerAppeared(p)
				}
			}
			k := 0
			for x, links := range cs.Link {
				peers := map[bpv7.EndpointID]bpv7.DtnTime{}
				for y, st := range links {
					if st != "absent" && y != x {
						peers[vdEid(y)] = vdTime(st, now)
					}
				}
				k++
				// the node first hears older link-state data of x naming as many, but other nodes; the data under test replaces it
				// (a replacement that does not grow must bring its new nodes into the graph just the same)
				if len(peers) > 0 {
					decoy := map[bpv7.EndpointID]bpv7.DtnTime{}
					for i := 0; i < len(peers); i++ {
						decoy[vdEid(fmt.Sprintf("decoy-%s-%d", x, i))] = 0
					}
					if err := vdFeed(d, c, x, now-1000, decoy, idx*10+k+5); err != nil {
						t.Fatal(err)
					}
				}
				if err := vdFeed(d, c, x, now, peers, idx*10+k); err != nil {
					t.Fatal(err)
				}
			}
			func() {
				defer func() {
					if p := recover(); p != nil {
						vhViol("dtlsr/panic", fmt.Sprintf("computeRoutingTable panicked: %v", p), vhRec{"case": json.RawMessage(item)})
					}
				}()
				d.dataMutex.Lock()
				d.computeRoutingTable()
				d.dataMutex.Unlock()
			}()
			good := true
			for dest, hops := range exp {
				d.dataMutex.RLock()
				nh, present := d.routingTable[vdEid(dest)]
				d.dataMutex.RUnlock()
				if present != (len(hops) > 0) {
					cls := "route-missing"
					if present {
						cls = "route-without-path"
					}
					vhViol("dtlsr/"+cls, fmt.Sprintf("destination %s: table entry present=%v (%v), but minimum-cost next hops are %v", dest, present, nh, hops),
						vhRec{"case": json.RawMessage(item), "dest": dest, "observed": nh.String()})
					good = false
					continue
				}
				if !present {
					continue
				}
				nroutes++
				found := false
				for _, h := range hops {
					if vdEid(h) == nh {
						found = true
					}
				}
				if !found {
					vhViol("dtlsr/not-least-cost", fmt.Sprintf("destination %s: next hop %v is not on a minimum-cost path (allowed %v)", dest, nh, hops),
						vhRec{"case": json.RawMessage(item), "dest": dest, "observed": nh.String()})
					good = false
				}
			}
			if good {
				ok++
			}
			if idx%1500 == 3 {
				vhSample(vhRec{"graph": json.RawMessage(item)})
			}
		} else {
			nupd++
			var exp map[string]struct {
				Ts  int    `json:"ts"`
				Tag string `json:"tag"`
			}
			_ = json.Unmarshal(cs.Exp, &exp)
			for k, u := range cs.Ups {
				peers := map[bpv7.EndpointID]bpv7.DtnTime{vdEid("marker-" + u.Tag + fmt.Sprint(k)): 0}
				if err := vdFeed(d, c, u.Node, bpv7.DtnTime(1000+u.Ts), peers, idx*10+k); err != nil {
					t.Fatal(err)
				}
			}
			good := true
			for node, want := range exp {
				d.dataMutex.RLock()
				data, present := d.receivedData[vdEid(node)]
				d.dataMutex.RUnlock()
				got := ""
				if present {
					var ks []string
					for e := range data.Peers {
						ks = append(ks, e.String())
					}
					sort.Strings(ks)
					// which update's marker is stored?
					for k, u := range cs.Ups {
						if len(ks) == 1 && ks[0] == vdEid("marker-"+u.Tag+fmt.Sprint(k)).String() {
							got = fmt.Sprintf("%d/%s/%d", u.Ts, u.Tag, k)
						}
					}
				}
				// expected: the first update (in arrival order) of that node carrying the kept timestamp
				wantS := ""
				if want.Tag != "" {
					for k, u := range cs.Ups {
						if u.Node == node && u.Ts == want.Ts && wantS == "" {
							// the kept one is the earliest arrival with the maximal timestamp seen so far chain: recompute exactly
							_ = k
						}
					}
					cur, curTs := -1, 0
					for k, u := range cs.Ups {
						if u.Node == node && (cur < 0 || u.Ts > curTs) {
							cur, curTs = k, u.Ts
						}
					}
					wantS = fmt.Sprintf("%d/%s/%d", cs.Ups[cur].Ts, cs.Ups[cur].Tag, cur)
					if cs.Ups[cur].Ts != want.Ts || cs.Ups[cur].Tag != want.Tag {
						vhEmit(vhRec{"k": "infra", "v": "harness and specification disagree about the replacement rule"})
					}
				}
				if got != wantS {
					vhViol("dtlsr/update-rule", fmt.Sprintf("updates %v: node %s keeps %q, expected %q (ts/tag/arrival)", cs.Ups, node, got, wantS), vhRec{"case": json.RawMessage(item)})
					good = false
				}
			}
			if good {
				ok++
			}
		}
	}
	vhStat("graphs", ngraph)
	vhStat("update_sequences", nupd)
	vhStat("routes_checked", nroutes)
	vhStat("cases_conforming", ok)
	vhDone()
}

// TestVerifC20Links: several convergence layers may lead to one node (a neighbour reached over MTCP and TCPCLv4). The selection of
// the peers for a replicated bundle (epidemic, DTLSR broadcasts: filterCLAs) is recorded for every small set of links and every set
// of already served nodes, and judged by Dtlsr!SelectionProblems: every node not served yet exactly once, no served node again.
func TestVerifC20Links(t *testing.T) {
	log.SetOutput(io.Discard)
	f, err := os.Create(os.Getenv("VERIF_REC"))
	if err != nil {
		t.Fatal(err)
	}
	defer f.Close()
	nodes := []string{"a", "b", "c"}
	n := 0
	// links: up to 4 links, each to one of the three nodes; sent: any subset of the nodes
	for code := 0; code < 3*3*3*3*2*2*2; code++ {
		x := code
		var links []string
		nl := 1 + (x % 4)
		y := code / 4
		for i := 0; i < nl; i++ {
			links = append(links, nodes[y%3])
			y /= 3
		}
		sentMask := (code / 7) % 8
		var sent []bpv7.EndpointID
		var sentNames []string
		for i, nd := range nodes {
			if sentMask&(1<<uint(i)) != 0 {
				sent = append(sent, vdEid(nd))
				sentNames = append(sentNames, nd)
			}
		}
		var clas []cla.ConvergenceSender
		for i, nd := range links {
			clas = append(clas, &vcPeer{name: fmt.Sprintf("%s#%d", nd, i), eid: vdEid(nd)})
		}
		bi := storage.BundleItem{Properties: map[string]interface{}{"routing/dtlsr/sent": sent}}
		chosen, after := filterCLAs(bi, clas, "dtlsr")
		var chosenNodes, afterNodes []string
		for _, cs := range chosen {
			chosenNodes = append(chosenNodes, strings.TrimSuffix(strings.TrimPrefix(cs.GetPeerEndpointID().String(), "dtn://"), "/"))
		}
		for _, e := range after {
			afterNodes = append(afterNodes, strings.TrimSuffix(strings.TrimPrefix(e.String(), "dtn://"), "/"))
		}
		if sentNames == nil {
			sentNames = []string{}
		}
		if chosenNodes == nil {
			chosenNodes = []string{}
		}
		if afterNodes == nil {
			afterNodes = []string{}
		}
		b, _ := json.Marshal(vhRec{"t": "selection", "links": links, "sent": sentNames, "chosen": chosenNodes, "after": afterNodes})
		f.Write(append(b, '\n'))
		n++
	}
	vhStat("selections", n)
	vhDone()
}
