package bbc

// C12 (BBC): replay of Bbc.tla fragment sequences on the real Connector's receive path; records of real
// fragment trains and of single-fault deliveries for judgement by Bbc!TrainProblems / Bbc!FaultProblems.

import (
	"bytes"
	"encoding/json"
	"fmt"
	"io"
	"math/rand"
	"os"
	"sync"
	"testing"

	log "github.com/sirupsen/logrus"

	"github.com/dtn7/dtn7-go/pkg/bpv7"
	"github.com/dtn7/dtn7-go/pkg/cla"
)

type vbModem struct{ mtu int }

func (m *vbModem) Mtu() int                   { return m.mtu }
func (m *vbModem) Send(Fragment) error        { return nil }
func (m *vbModem) Receive() (Fragment, error) { return Fragment{}, io.EOF }
func (m *vbModem) Close() error               { return nil }
func (m *vbModem) String() string             { return "verif-modem" }

func vbBundle(tag string, payload int) bpv7.Bundle {
	data := make([]byte, payload)
	rng := rand.New(rand.NewSource(int64(len(tag)*7919 + payload)))
	rng.Read(data) // incompressible, so that the xz stream length follows the payload length
	b, err := bpv7.Builder().CRC(bpv7.CRC32).Source("dtn://" + tag + "/").Destination("dtn://dst/").CreationTimestampNow().
		Lifetime("30m").PayloadBlock(data).Build()
	if err != nil {
		panic(err)
	}
	return b
}

func vbSer(b bpv7.Bundle) []byte {
	var buf bytes.Buffer
	_ = b.MarshalCbor(&buf)
	return buf.Bytes()
}

// vbTrain: all fragments the real sender produces.
func vbTrain(tid byte, b bpv7.Bundle, mtu int) (frs []Fragment, err error) {
	t, err := NewOutgoingTransmission(tid, b, mtu)
	if err != nil {
		return nil, err
	}
	for i := 0; i < 100000; i++ {
		f, fin, err := t.WriteFragment()
		if err != nil {
			return frs, err
		}
		frs = append(frs, f)
		if fin {
			return frs, nil
		}
	}
	return frs, fmt.Errorf("sender does not finish")
}

// vbTrainOfLen searches a modem MTU for which the real sender produces exactly n fragments.
func vbTrainOfLen(tid byte, b bpv7.Bundle, n int) []Fragment {
	for mtu := 3; mtu < 2000; mtu++ {
		frs, err := vbTrain(tid, b, mtu)
		if err == nil && len(frs) == n {
			return frs
		}
	}
	return nil
}

type vbRecv struct {
	c        *Connector
	failures int
	bundles  [][]byte
}

func vbNewRecv() *vbRecv {
	return &vbRecv{c: NewConnector(&vbModem{mtu: 64}, false)}
}

// feed passes one fragment (through its wire form) to the connector's receive path and collects what came out.
func (r *vbRecv) feed(f Fragment) (panicked string) {
	defer func() {
		if p := recover(); p != nil {
			panicked = fmt.Sprint(p)
		}
	}()
	pf, err := ParseFragment(f.Bytes())
	if err != nil {
		return "ParseFragment: " + err.Error()
	}
	_ = r.c.handleIncomingFragment(pf)
	for {
		select {
		case out := <-r.c.fragmentOut:
			if out.FailBit() {
				r.failures++
			}
		case cs := <-r.c.reportChan:
			if cs.MessageType == cla.ReceivedBundle {
				r.bundles = append(r.bundles, vbSer(*cs.Message.(cla.ConvergenceReceivedBundle).Bundle))
			}
		default:
			return
		}
	}
}

type vbStep struct {
	Tid int `json:"tid"`
	I   int `json:"i"`
	Exp struct {
		Delivered []struct {
			Tid int `json:"tid"`
		} `json:"delivered"`
		Failures int `json:"failures"`
	} `json:"exp"`
}

type vbHist struct {
	Lens []int    `json:"lens"`
	H    []vbStep `json:"h"`
}

func TestVerifC12BbcReplay(t *testing.T) {
	log.SetOutput(io.Discard)
	var items [][]byte
	if err := vhLines(os.Getenv("VERIF_IN"), func(b []byte) { items = append(items, b) }); err != nil {
		t.Fatal(err)
	}
	// trains per (tid, length), from the real sender
	type key struct{ tid, n int }
	trains := map[key][]Fragment{}
	origs := map[int][]byte{}
	bundles := map[int]bpv7.Bundle{1: vbBundle("a", 40), 2: vbBundle("b", 90)}
	for tid, b := range bundles {
		origs[tid] = vbSer(b)
	}
	var tmu sync.Mutex
	train := func(tid, n int) []Fragment {
		tmu.Lock()
		defer tmu.Unlock()
		k := key{tid, n}
		if _, ok := trains[k]; !ok {
			trains[k] = vbTrainOfLen(byte(10*tid), bundles[tid], n)
		}
		return trains[k]
	}
	var mu sync.Mutex
	steps, conforming, deliveries, failures := 0, 0, 0, 0
	vhParallel(vhEnvInt("VERIF_PAR", 8), items, func(idx int, item []byte) {
		var h vbHist
		if err := json.Unmarshal(item, &h); err != nil {
			vhEmit(vhRec{"k": "infra", "v": err.Error()})
			return
		}
		r := vbNewRecv()
		good := true
		for n, s := range h.H {
			tr := train(s.Tid, h.Lens[s.Tid-1])
			if tr == nil {
				vhEmit(vhRec{"k": "infra", "v": fmt.Sprintf("no MTU gives a train of %d fragments", h.Lens[s.Tid-1])})
				return
			}
			if p := r.feed(tr[s.I-1]); p != "" {
				vhViol("bbc/receiver-panic", p, vhRec{"lens": h.Lens, "history": h.H[:n+1]})
				good = false
				break
			}
			okDeliv := len(r.bundles) == len(s.Exp.Delivered)
			if okDeliv {
				for i, d := range s.Exp.Delivered {
					if !bytes.Equal(r.bundles[i], origs[d.Tid]) {
						okDeliv = false
					}
				}
			}
			if !okDeliv || r.failures != s.Exp.Failures {
				cls := "failure-signals"
				if !okDeliv {
					cls = "deliveries"
				}
				vhViol("bbc/receiver/"+cls, fmt.Sprintf("trains %v, after fragment %d (tid %d #%d): expected %d deliveries / %d failure signals, observed %d / %d",
					h.Lens, n, s.Tid, s.I, len(s.Exp.Delivered), s.Exp.Failures, len(r.bundles), r.failures),
					vhRec{"lens": h.Lens, "history": h.H[:n+1], "observed_deliveries": len(r.bundles), "observed_failures": r.failures})
				good = false
				break
			}
		}
		mu.Lock()
		steps += len(h.H)
		if good {
			conforming++
			deliveries += len(r.bundles)
			failures += r.failures
		}
		if idx%3000 == 5 {
			vhSample(vhRec{"lens": h.Lens, "fragments": h.H})
		}
		mu.Unlock()
	})
	vhStat("histories", len(items))
	vhStat("histories_conforming", conforming)
	vhStat("steps", steps)
	vhStat("deliveries", deliveries)
	vhStat("failure_signals", failures)
	vhDone()
}

func TestVerifC12BbcRecord(t *testing.T) {
	log.SetOutput(io.Discard)
	thorough := os.Getenv("VERIF_TIER") == "thorough"
	f, err := os.Create(os.Getenv("VERIF_REC"))
	if err != nil {
		t.Fatal(err)
	}
	defer f.Close()
	var mu sync.Mutex
	nrec := 0
	put := func(v interface{}) {
		b, _ := json.Marshal(v)
		mu.Lock()
		f.Write(append(b, '\n'))
		nrec++
		mu.Unlock()
	}
	mtus := []int{3, 4, 5, 7, 10, 16, 17, 18, 19, 32, 33, 64, 100, 255}
	payloads := []int{0, 10, 60}
	if thorough {
		mtus = nil
		for m := 3; m <= 64; m++ {
			mtus = append(mtus, m)
		}
		mtus = append(mtus, 100, 128, 255, 256, 1000)
		payloads = []int{0, 1, 10, 60, 200, 1000}
	}
	type job struct{ payload, mtu int }
	var jobs []job
	for _, p := range payloads {
		for _, m := range mtus {
			jobs = append(jobs, job{p, m})
		}
	}
	items := make([][]byte, len(jobs))
	seed := vhSeed()
	vhParallel(vhEnvInt("VERIF_PAR", 8), items, func(idx int, _ []byte) {
		j := jobs[idx]
		b := vbBundle(fmt.Sprintf("p%d", j.payload), j.payload)
		orig := vbSer(b)
		tid := byte(idx*37 + 1)
		frs, err := vbTrain(tid, b, j.mtu)
		if err != nil {
			vhViol("bbc/sender-error", fmt.Sprintf("payload %d mtu %d: %v", j.payload, j.mtu, err), vhRec{"payload": j.payload, "mtu": j.mtu})
			return
		}
		// sender record
		type fi struct {
			Size  int  `json:"size"`
			Seq   int  `json:"seq"`
			Start bool `json:"start"`
			End   bool `json:"end"`
			Fail  bool `json:"fail"`
			Tid   int  `json:"tid"`
		}
		var infos []fi
		var cat []byte
		for _, fr := range frs {
			infos = append(infos, fi{len(fr.Bytes()), int(fr.SequenceNumber()), fr.StartBit(), fr.EndBit(), fr.FailBit(), int(fr.TransmissionID())})
			cat = append(cat, fr.Payload...)
		}
		// the concatenation must be the xz stream the receiver decodes to the original bundle
		it, _ := NewIncomingTransmission(NewFragment(tid, 1, true, true, false, cat))
		concatOK := false
		if it != nil {
			if rb, err := it.Bundle(); err == nil {
				concatOK = bytes.Equal(vbSer(rb), orig)
			}
		}
		put(vhRec{"t": "train", "mtu": j.mtu, "plen": j.payload, "tid": int(tid), "frags": infos, "concat_ok": concatOK})

		// single faults
		run := func(seq []Fragment, fault string, pos int) {
			r := vbNewRecv()
			for _, fr := range seq {
				if p := r.feed(fr); p != "" {
					vhViol("bbc/receiver-panic", p, vhRec{"payload": j.payload, "mtu": j.mtu, "fault": fault, "pos": pos})
					return
				}
			}
			same := true
			for _, d := range r.bundles {
				if !bytes.Equal(d, orig) {
					same = false
				}
			}
			put(vhRec{"t": "faulty", "nfrags": len(frs), "mtu": j.mtu, "plen": j.payload, "fault": fault, "pos": pos,
				"failures": r.failures, "deliveries": len(r.bundles), "all_identical": same})
		}
		run(frs, "none", 0)
		n := len(frs)
		positions := make([]int, 0, n)
		for i := 0; i < n; i++ {
			positions = append(positions, i)
		}
		if n > 40 && !thorough { // long trains: the ends, the wrap positions and a seeded sample
			rng := rand.New(rand.NewSource(seed + int64(idx)))
			keep := map[int]bool{0: true, 1: true, n - 1: true, n - 2: true, 14: true, 15: true, 16: true, 31: true, 32: true}
			for k := 0; k < 12; k++ {
				keep[rng.Intn(n)] = true
			}
			positions = positions[:0]
			for i := 0; i < n; i++ {
				if keep[i] {
					positions = append(positions, i)
				}
			}
		}
		for _, i := range positions {
			drop := append(append([]Fragment{}, frs[:i]...), frs[i+1:]...)
			run(drop, "drop", i+1)
			dup := append(append(append([]Fragment{}, frs[:i+1]...), frs[i]), frs[i+1:]...)
			run(dup, "dup", i+1)
			if i+1 < n {
				sw := append([]Fragment{}, frs...)
				sw[i], sw[i+1] = sw[i+1], sw[i]
				run(sw, "swap", i+1)
			}
		}
	})
	vhStat("trains", len(jobs))
	vhStat("records", nrec)
	vhDone()
}
